// Harness for C18: drives the real client.BaseClient / client.CacheClient,
// alone or wrapped in client.ReconnectClient, against a scripted transport
// (an Impl registered through client.RegisterTest whose decoding side is the
// real client/fake.Client or client/gnmi.Client; the constructor may also be the
// real client/gnmi New dialling a target that never connects), injects Close / context cancellation at chosen
// moments, and records the sequence of calls into the transport, handler /
// disconnect / reset invocations and the calls and returns of Subscribe and
// Close.  Coq (ClientCheck.check_all) decides whether the LTS accepts the
// recorded sequence for that script and evaluates K_P on it.
package main

import (
	"context"
	"encoding/json"
	"errors"
	"flag"
	"fmt"
	"io"
	"net"
	"os"
	"runtime"
	"strconv"
	"strings"
	"sync"
	"sync/atomic"
	"time"

	"github.com/openconfig/gnmi/client"
	fclient "github.com/openconfig/gnmi/client/fake"
	gclient "github.com/openconfig/gnmi/client/gnmi"
	gpb "github.com/openconfig/gnmi/proto/gnmi"
	"github.com/openconfig/gnmi/zz_verif/vh"
	"google.golang.org/grpc"
	"google.golang.org/grpc/codes"
	"google.golang.org/grpc/metadata"
	"google.golang.org/grpc/status"
)

// Item is what one Recv of the scripted transport does.
// K: msg (a message with N notifications arrives), err, eof (Stop: return
// ErrStopReading instead of io.EOF), block (until cancelled / closed), blockq
// (a quiet stream that its context does not wake: until the Impl is closed).
type Item struct {
	K    string `json:"k"`
	N    int    `json:"n,omitempty"`
	Stop bool   `json:"stop,omitempty"`
	// E: which error value an "err" item returns (see errOf); a "block" item
	// returns the context's own error once cancelled (what real transports do).
	E string `json:"e,omitempty"`
}

// Attempt is the script of one (re)connection.
type Attempt struct {
	Init  bool   `json:"init"`
	Sub   bool   `json:"sub"`
	Items []Item `json:"items"`
	// IE / SE: error kind returned by a failing constructor / Impl.Subscribe.
	IE string `json:"ie,omitempty"`
	SE string `json:"se,omitempty"`
	// CE: what the transport's own Close returns: "" nil, always (an error every
	// time), second (an error from the second call on, like grpc's
	// ErrClientConnClosing), afterfail (an error once a Recv has failed).
	CE string `json:"ce,omitempty"`
	// Dial: the constructor of this attempt is the real client/gnmi New,
	// dialling a target that never completes a connection: silent (accepts TCP,
	// never speaks), refuse (nobody listens), closing (accepts and closes).
	// Such an attempt can only fail (Init must be false).
	Dial string `json:"dial,omitempty"`
}

// Act is "do What (close | cancel | poll | pollstall) when the subscriber reaches
// Gate": poll / pollstall call Poll() from a goroutine of their own, with a target
// that answers the round at once / does not answer (the round stays outstanding in
// Recv until the transport is closed or its context cancelled).
// Gates: before, race, end, init:k, sub:k, recv:k:i, h:k:n (n-th handler
// invocation of attempt k), disc:k, reset:k, sleep:k (Delay microseconds after
// the disconnect callback of attempt k returned, not parked), postsub:k (Delay
// microseconds after Impl.Subscribe of attempt k returned, not parked),
// implclose:k:n (inside the n-th Close call on the transport of attempt k, after
// it took effect: a slow Close; the caller -- the re-subscribe tearing down the
// previous transport, run() after an error, or Close itself -- is parked there).
// Delay: microseconds to wait after the act before the subscriber continues.
type Act struct {
	Gate  string `json:"gate"`
	What  string `json:"what"`
	Delay int    `json:"delay,omitempty"`
}

// Ev is one recorded event.
type Ev struct {
	T  string `json:"t"`
	K  int    `json:"k,omitempty"`
	I  int    `json:"i,omitempty"`
	J  int    `json:"j,omitempty"`
	R  string `json:"r,omitempty"`
	OK bool   `json:"ok,omitempty"`
}

// Case is one scenario; Trace is what was observed.
type Case struct {
	Family   string    `json:"family"`
	Kind     string    `json:"kind"`  // base cache rebase recache
	Inner    string    `json:"inner"` // decoding side of the transport: fake (client/fake) or gnmi (client/gnmi)
	Attempts []Attempt `json:"attempts"`
	Ops      []Act     `json:"ops"`
	// Then: further calls on the same client after the first Subscribe (and the
	// Close the acts made, if any) have returned, one after the other: sub,
	// close, subclose (Subscribe and Close started together; ReconnectClient only).
	Then []string `json:"then,omitempty"`
	// NoCB: the ReconnectClient is built with nil disconnect and reset callbacks
	// (their steps are then invisible; gates disc / reset / sleep do not exist).
	NoCB bool `json:"nocb,omitempty"`
	// SubDelay: microseconds the first Subscribe call is held back after the racing acts were released.
	SubDelay int  `json:"subdelay,omitempty"`
	Trace    []Ev `json:"trace,omitempty"`
}

func (c Case) reconnect() bool { return strings.HasPrefix(c.Kind, "re") }

var errImpl = errors.New("scripted transport error")
var errImplClose = errors.New("scripted transport: the connection is closing")

// errOf maps an error kind of the script alphabet to an error value.  The
// client must treat all of them alike (any error other than the bare io.EOF /
// ErrStopReading ends the attempt with an error).
func errOf(kind string) error {
	switch kind {
	case "canceled":
		return context.Canceled
	case "deadline":
		return context.DeadlineExceeded
	case "eofwrapped":
		return fmt.Errorf("stream broke: %w", io.EOF)
	case "stopwrapped":
		return fmt.Errorf("wrapped: %w", client.ErrStopReading)
	case "grpccanceled":
		return status.Error(codes.Canceled, "context canceled")
	case "unavailable":
		return status.Error(codes.Unavailable, "transport is closing")
	}
	return errImpl
}

var errKinds = []string{"", "canceled", "deadline", "eofwrapped", "stopwrapped", "grpccanceled", "unavailable"}

// dial targets for the real client/gnmi constructor
var dialAddr = map[string]string{}

func setupDialTargets() {
	hold := func(closeAtOnce bool) string {
		lis, err := net.Listen("tcp", "127.0.0.1:0")
		if err != nil {
			vh.Die("listen: %v", err)
		}
		go func() {
			var keep []net.Conn
			for {
				c, err := lis.Accept()
				if err != nil {
					return
				}
				if closeAtOnce {
					c.Close()
				} else {
					keep = append(keep, c) // never read, never written
				}
			}
		}()
		return lis.Addr().String()
	}
	dialAddr["silent"] = hold(false)
	dialAddr["closing"] = hold(true)
	lis, err := net.Listen("tcp", "127.0.0.1:0")
	if err != nil {
		vh.Die("listen: %v", err)
	}
	dialAddr["refuse"] = lis.Addr().String()
	lis.Close()
}

const dialTimeout = 12 * time.Second // Destination.Timeout of the dial family, well above the watchdog

const watchdog = 5 * time.Second

// scen is one running scenario.
type scen struct {
	c  Case
	id string

	mu     sync.Mutex
	trace  []Ev
	frozen bool
	fired  map[int]bool // acts already performed

	nAttempt   int32 // factory calls so far
	curAttempt int32
	hcount     int32 // handler invocations in the current attempt

	ctxMu   sync.Mutex
	implCtx context.Context // the context handed to the transport

	parentCancel func()
	closer       func() error
	closeCalled  bool // under mu
	cancelCalled bool // under mu
	ending       bool // under mu: the first session is over, late acts are dropped
	inThen       int32
	pollAnswers  bool            // under mu: does the target answer the poll round in progress
	pollOut      chan struct{}   // under mu: closed once that round is outstanding in Recv
	poller       func() error    // the client's Poll
	thenClosing  bool            // under mu: a Close started by asyncClose is in progress
	pending      []chan struct{} // under mu: Close calls started by asyncClose
	lastDisc     int64           // unix nanos at which the disconnect callback last returned
	kept         []keptNote
	stopCalled   int32
	closeFailed  int32
	closeDone    chan struct{}
	dead         chan struct{}
	deadOnce     sync.Once
}

// keptNote is a notification the application kept: the slice it was handed
// and a private copy of what it contained at that moment.
type keptNote struct {
	got  []string
	copy []string
}

var scens sync.Map // id -> *scen

func (s *scen) log(e Ev) {
	s.mu.Lock()
	if !s.frozen {
		s.trace = append(s.trace, e)
	}
	s.mu.Unlock()
}

func (s *scen) isDead() bool {
	select {
	case <-s.dead:
		return true
	default:
		return false
	}
}

func (s *scen) kill() { s.deadOnce.Do(func() { close(s.dead) }) }

func (s *scen) closeWasCalled() bool {
	s.mu.Lock()
	defer s.mu.Unlock()
	return s.closeCalled
}

func (s *scen) doClose() {
	s.mu.Lock()
	if s.ending || s.closeCalled {
		s.mu.Unlock()
		return
	}
	s.closeCalled = true
	atomic.StoreInt32(&s.stopCalled, 1)
	if !s.frozen {
		s.trace = append(s.trace, Ev{T: "closecall"})
	}
	s.mu.Unlock()
	go func() {
		defer func() {
			if r := recover(); r != nil {
				s.log(Ev{T: "panic"})
			}
			close(s.closeDone)
		}()
		err := s.closer()
		if err != nil {
			atomic.StoreInt32(&s.closeFailed, 1)
		}
		s.log(Ev{T: "closeret", OK: closeOK(err)})
	}()
}

// act performs one action while the subscriber is parked (or, for the
// unparked gates, concurrently with it).
func (s *scen) act(a Act, parked bool) {
	if atomic.LoadInt32(&s.inThen) != 0 && parked && a.What == "close" && !s.c.reconnect() {
		// a gate reached by a later Subscribe call of a bare client: Close does not
		// wait for Subscribe there, so it is simply made inline
		s.asyncClose(strings.HasPrefix(a.Gate, "implclose"))
		return
	}
	switch a.What {
	case "poll", "pollstall":
		s.doPoll(a.What == "poll")
		return
	}
	switch a.What {
	case "close":
		if s.closeWasCalled() {
			return
		}
		s.doClose()
		if parked {
			// let Close get going before the subscriber continues: through a
			// ReconnectClient it cancels the context first, on a bare client it returns.
			if s.c.reconnect() {
				s.ctxMu.Lock()
				ctx := s.implCtx
				s.ctxMu.Unlock()
				if ctx != nil {
					select {
					case <-ctx.Done():
					case <-s.closeDone:
					case <-s.dead:
					case <-time.After(400 * time.Millisecond):
					}
				}
			} else {
				wait := time.Second
				if strings.HasPrefix(a.Gate, "implclose") {
					wait = 20 * time.Millisecond // the subscriber may hold c.mu here
				}
				select {
				case <-s.closeDone:
				case <-s.dead:
				case <-time.After(wait):
				}
			}
		}
	case "cancel":
		s.mu.Lock()
		if s.ending || s.cancelCalled {
			s.mu.Unlock()
			return
		}
		s.cancelCalled = true
		atomic.StoreInt32(&s.stopCalled, 1)
		if !s.frozen {
			s.trace = append(s.trace, Ev{T: "cancelcall"})
		}
		s.mu.Unlock()
		s.parentCancel()
	}
	if a.Delay > 0 && parked {
		time.Sleep(time.Duration(a.Delay) * time.Microsecond)
	}
}

// gate is called by the subscriber's goroutine at every point where an action
// may be injected.
func (s *scen) gate(name string) {
	if s.isDead() {
		return
	}
	for idx, a := range s.c.Ops {
		if a.Gate != name {
			continue
		}
		s.mu.Lock()
		done := s.fired[idx]
		s.fired[idx] = true
		s.mu.Unlock()
		if !done {
			s.act(a, true)
		}
	}
}

func (s *scen) attempt(k int) Attempt {
	if k < len(s.c.Attempts) {
		return s.c.Attempts[k]
	}
	return Attempt{}
}

// ---------------------------------------------------------------------------
// the scripted transport

type impl struct {
	s      *scen
	k      int
	ctx    context.Context
	a      Attempt
	inner  client.Impl
	gs     *gstream // only with the gnmi decoder
	pos    int
	closed chan struct{}
	once   sync.Once
	ncl    int32
	failed int32 // a Recv has returned an error
	pollG  int64 // goroutine in which Poll() was last called on this transport
}

func factory(ctx context.Context, d client.Destination) (client.Impl, error) {
	v, ok := scens.Load(d.Addrs[0])
	if !ok {
		return nil, errImpl
	}
	s := v.(*scen)
	k := int(atomic.AddInt32(&s.nAttempt, 1)) - 1
	atomic.StoreInt32(&s.curAttempt, int32(k))
	atomic.StoreInt32(&s.hcount, 0)
	s.ctxMu.Lock()
	if s.implCtx == nil {
		s.implCtx = ctx
	}
	s.ctxMu.Unlock()
	s.log(Ev{T: "factory", K: k})
	if s.isDead() {
		return nil, errImpl
	}
	if k >= len(s.c.Attempts) && s.c.reconnect() && atomic.LoadInt32(&s.stopCalled) == 0 {
		// the script is exhausted and nothing stops the client: close it here
		s.act(Act{What: "close"}, true)
	}
	s.gate(fmt.Sprintf("init:%d", k))
	a := s.attempt(k)
	if a.Dial != "" {
		// the real gNMI constructor, against a target that never connects: it
		// must come back as soon as the context it was given is cancelled
		s.later(fmt.Sprintf("dial:%d", k))
		go func() { // fallback so that the scenario ends on the unchanged tree
			select {
			case <-time.After(300 * time.Millisecond):
			case <-s.dead:
				return
			}
			if !s.c.reconnect() {
				// Close has no effect on a bare client that is still connecting
				if atomic.LoadInt32(&s.inThen) != 0 {
					s.thenCancel()
				} else {
					s.act(Act{What: "cancel"}, false)
				}
			} else if atomic.LoadInt32(&s.stopCalled) == 0 {
				s.act(Act{What: "close"}, false)
			}
		}()
		im, err := gclient.New(ctx, client.Destination{Addrs: []string{dialAddr[a.Dial]}, Timeout: dialTimeout})
		if err == nil {
			im.Close()
			s.log(Ev{T: "panic"}) // cannot happen: nothing answers at that address
			return nil, errImpl
		}
		return nil, err
	}
	if !a.Init {
		return nil, errOf(a.IE)
	}
	if ctx.Err() != nil {
		return nil, ctx.Err()
	}
	var ups []interface{}
	for i, it := range a.Items {
		if it.K != "msg" {
			break
		}
		for j := 0; j < it.N; j++ {
			ups = append(ups, client.Update{Path: []string{"u", strconv.Itoa(k), strconv.Itoa(i), strconv.Itoa(j)}, TS: time.Unix(0, int64(1000*k+10*i+j)), Val: int64(j)})
		}
	}
	m := &impl{s: s, k: k, ctx: ctx, a: a, closed: make(chan struct{})}
	if s.c.Inner == "gnmi" {
		m.gs = &gstream{ctx: ctx}
		m.inner = gclient.VerifNewC18(&gstub{st: m.gs})
	} else {
		m.inner = &fclient.Client{Context: ctx, Updates: ups}
	}
	return m, nil
}

// gstub / gstream stand for the grpc side of client/gnmi: a stream whose
// responses are queued by the scripted transport just before it calls Recv.
type gstub struct{ st *gstream }

func (g *gstub) Capabilities(context.Context, *gpb.CapabilityRequest, ...grpc.CallOption) (*gpb.CapabilityResponse, error) {
	return nil, errImpl
}
func (g *gstub) Get(context.Context, *gpb.GetRequest, ...grpc.CallOption) (*gpb.GetResponse, error) {
	return nil, errImpl
}
func (g *gstub) Set(context.Context, *gpb.SetRequest, ...grpc.CallOption) (*gpb.SetResponse, error) {
	return nil, errImpl
}
func (g *gstub) Subscribe(ctx context.Context, _ ...grpc.CallOption) (gpb.GNMI_SubscribeClient, error) {
	return g.st, nil
}

type gstream struct {
	ctx context.Context
	q   []*gpb.SubscribeResponse
}

func (g *gstream) Send(*gpb.SubscribeRequest) error { return nil }
func (g *gstream) Recv() (*gpb.SubscribeResponse, error) {
	if len(g.q) == 0 {
		return nil, errImpl
	}
	r := g.q[0]
	g.q = g.q[1:]
	return r, nil
}
func (g *gstream) Header() (metadata.MD, error) { return nil, nil }
func (g *gstream) Trailer() metadata.MD         { return nil }
func (g *gstream) CloseSend() error             { return nil }
func (g *gstream) Context() context.Context     { return g.ctx }
func (g *gstream) SendMsg(interface{}) error    { return nil }
func (g *gstream) RecvMsg(interface{}) error    { return errImpl }

func gnmiMsg(k, i, n int) *gpb.SubscribeResponse {
	no := &gpb.Notification{Timestamp: int64(1000*k + 10*i)}
	if n >= 2 {
		// most of the path travels as the prefix shared by the updates
		no.Prefix = &gpb.Path{Elem: []*gpb.PathElem{{Name: "u"}, {Name: strconv.Itoa(k)}, {Name: strconv.Itoa(i)}, {Name: "p"}, {Name: "q"}}}
		for j := 0; j < n; j++ {
			no.Update = append(no.Update, &gpb.Update{
				Path: &gpb.Path{Elem: []*gpb.PathElem{{Name: strconv.Itoa(j)}}},
				Val:  &gpb.TypedValue{Value: &gpb.TypedValue_IntVal{IntVal: int64(j)}},
			})
		}
		return &gpb.SubscribeResponse{Response: &gpb.SubscribeResponse_Update{Update: no}}
	}
	for j := 0; j < n; j++ {
		no.Update = append(no.Update, &gpb.Update{
			Path: &gpb.Path{Elem: []*gpb.PathElem{{Name: "u"}, {Name: strconv.Itoa(k)}, {Name: strconv.Itoa(i)}, {Name: strconv.Itoa(j)}}},
			Val:  &gpb.TypedValue{Value: &gpb.TypedValue_IntVal{IntVal: int64(j)}},
		})
	}
	return &gpb.SubscribeResponse{Response: &gpb.SubscribeResponse_Update{Update: no}}
}

// later performs the acts bound to an unparked gate: Delay microseconds from
// now, concurrently with the subscriber.
func (s *scen) later(name string) {
	for idx, a := range s.c.Ops {
		if a.Gate != name {
			continue
		}
		s.mu.Lock()
		done := s.fired[idx]
		s.fired[idx] = true
		s.mu.Unlock()
		if !done {
			a := a
			go func() {
				time.Sleep(time.Duration(a.Delay) * time.Microsecond)
				if !s.isDead() {
					s.act(a, false)
				}
			}()
		}
	}
}

func (m *impl) Subscribe(ctx context.Context, q client.Query) error {
	m.s.log(Ev{T: "implsub", K: m.k})
	m.s.gate(fmt.Sprintf("sub:%d", m.k))
	// postsub:k: while the client installs the transport and enters its read loop
	defer m.s.later(fmt.Sprintf("postsub:%d", m.k))
	if !m.a.Sub {
		return errOf(m.a.SE)
	}
	if ctx.Err() != nil {
		return ctx.Err()
	}
	return m.inner.Subscribe(ctx, q)
}

func (m *impl) Recv() error {
	if g := atomic.LoadInt64(&m.pollG); g != 0 && g == goid() {
		return m.pollRound()
	}
	err := m.recv()
	if err != nil && err != io.EOF && err != client.ErrStopReading {
		atomic.StoreInt32(&m.failed, 1)
	}
	return err
}

func (m *impl) recv() error {
	i := m.pos
	m.pos++
	m.s.log(Ev{T: "recv", K: m.k, I: i})
	m.s.gate(fmt.Sprintf("recv:%d:%d", m.k, i))
	if m.s.isDead() {
		return errImpl
	}
	if i >= len(m.a.Items) {
		if m.gs != nil {
			// a STREAM query goes on after the sync response; the script ends here
			m.gs.q = append(m.gs.q, &gpb.SubscribeResponse{Response: &gpb.SubscribeResponse_SyncResponse{SyncResponse: true}})
			if err := m.inner.Recv(); err != nil {
				return err
			}
			return client.ErrStopReading
		}
		return m.inner.Recv() // Sync, ErrStopReading
	}
	it := m.a.Items[i]
	switch it.K {
	case "msg":
		if m.gs != nil {
			m.gs.q = append(m.gs.q, gnmiMsg(m.k, i, it.N))
			return m.inner.Recv()
		}
		var err error
		for j := 0; j < it.N; j++ { // the fake decodes one notification per call
			if err = m.inner.Recv(); err != nil {
				return err
			}
		}
		if it.N == 0 {
			return nil
		}
		return err
	case "err":
		return errOf(it.E)
	case "eof":
		if it.Stop {
			return client.ErrStopReading
		}
		return io.EOF
	case "blockq":
		// quiet stream: only the transport's own Close wakes it.  If nobody has
		// called Close so far, do it now (Close while the stream is idle).
		if atomic.LoadInt32(&m.s.inThen) != 0 {
			if !m.s.c.reconnect() {
				go m.s.asyncClose(false)
			}
		} else if !m.s.closeWasCalled() {
			m.s.act(Act{What: "close"}, false)
		} else if !m.s.c.reconnect() && atomic.LoadInt32(&m.s.closeFailed) != 0 {
			// the bare client's Close came before the transport was installed
			// (ErrClientInit, no effect): close again now
			go m.s.asyncClose(false)
		}
		select {
		case <-m.closed:
		case <-m.s.dead:
		}
		return errImpl
	case "block":
		if atomic.LoadInt32(&m.s.inThen) != 0 {
			if !m.s.c.reconnect() {
				m.s.thenCancel()
			}
		} else if atomic.LoadInt32(&m.s.stopCalled) == 0 {
			// nothing has stopped the client so far and nothing arrives any more:
			// close it now (Close while the stream is idle)
			m.s.act(Act{What: "close"}, false)
		} else if !m.s.c.reconnect() && atomic.LoadInt32(&m.s.closeFailed) != 0 {
			// a bare client whose Close came too early (ErrClientInit): only the
			// caller's context can stop it now
			m.s.act(Act{What: "cancel"}, false)
		}
		select {
		case <-m.ctx.Done():
			return m.ctx.Err() // context.Canceled: what a real stream reports
		case <-m.closed:
		case <-m.s.dead:
		}
		return errImpl
	}
	return errImpl
}

func (m *impl) Close() error {
	m.s.log(Ev{T: "implclose", K: m.k})
	m.once.Do(func() { close(m.closed) })
	n := int(atomic.AddInt32(&m.ncl, 1)) - 1
	m.s.gate(fmt.Sprintf("implclose:%d:%d", m.k, n))
	var err error
	if m.gs == nil { // client/gnmi's Close only closes the grpc connection, which the stub does not have
		err = m.inner.Close()
	}
	switch m.a.CE {
	case "always":
		err = errImplClose
	case "second":
		if n >= 1 {
			err = errImplClose
		}
	case "afterfail":
		if atomic.LoadInt32(&m.failed) != 0 {
			err = errImplClose
		}
	}
	return err
}

// goid returns the id of the calling goroutine (the poll round's Recv is told
// from the subscriber's by the goroutine it runs in).
func goid() int64 {
	var buf [64]byte
	n := runtime.Stack(buf[:], false)
	f := strings.Fields(string(buf[:n]))
	if len(f) < 2 {
		return -1
	}
	id, _ := strconv.ParseInt(f[1], 10, 64)
	return id
}

func (m *impl) Poll() error {
	atomic.StoreInt64(&m.pollG, goid())
	return nil
}

// pollRound is Recv as called by BaseClient.Poll's read round.
func (m *impl) pollRound() error {
	m.s.mu.Lock()
	answers := m.s.pollAnswers
	out := m.s.pollOut
	m.s.mu.Unlock()
	if answers {
		return client.ErrStopReading
	}
	if out != nil {
		select {
		case <-out:
		default:
			close(out)
		}
	}
	select {
	case <-m.ctx.Done():
	case <-m.closed:
	case <-m.s.dead:
	}
	return errImpl
}

// ---------------------------------------------------------------------------
// one scenario

// closeOK projects what Close returned: only "rejected with ErrClientInit" (no
// transport yet, the call had no effect) versus "accepted" is specified; an
// accepted Close may hand through whatever error the transport's own Close
// returned, and the property must hold all the same.
func closeOK(err error) bool { return !errors.Is(err, client.ErrClientInit) }

func rcls(err error) string {
	switch {
	case err == nil:
		return "nil"
	case errors.Is(err, context.Canceled):
		return "canceled"
	}
	return "other"
}

var scenSeq uint64

// hangCount counts scenarios ended by the watchdog; once maxHangs of them have
// been seen the remaining scenarios are skipped (the verdict is settled and
// every further hang costs a full watchdog period).
var hangCount int32

const maxHangs = 40

func runCase(c Case) []Ev {
	if c.Inner == "" {
		c.Inner = "fake"
	}
	s := &scen{c: c, id: fmt.Sprintf("s%d", atomic.AddUint64(&scenSeq, 1)), fired: map[int]bool{},
		closeDone: make(chan struct{}), dead: make(chan struct{})}
	scens.Store(s.id, s)
	defer scens.Delete(s.id)

	handler := func(n client.Notification) error {
		k := int(atomic.LoadInt32(&s.curAttempt))
		switch v := n.(type) {
		case client.Connected:
			s.log(Ev{T: "conn"})
		case client.Sync:
			s.log(Ev{T: "sync"})
		case client.Update:
			s.mu.Lock()
			s.kept = append(s.kept, keptNote{got: v.Path, copy: append([]string{}, v.Path...)})
			s.mu.Unlock()
			switch len(v.Path) {
			case 4:
				a, _ := strconv.Atoi(v.Path[1])
				b, _ := strconv.Atoi(v.Path[2])
				d, _ := strconv.Atoi(v.Path[3])
				s.log(Ev{T: "upd", K: a, I: b, J: d})
			case 6: // [u k i p q j]: the first five elements came as the notification's prefix
				a, _ := strconv.Atoi(v.Path[1])
				b, _ := strconv.Atoi(v.Path[2])
				d, _ := strconv.Atoi(v.Path[5])
				s.log(Ev{T: "upd", K: a, I: b, J: d})
			default:
				s.log(Ev{T: "panic"})
			}
		default:
			s.log(Ev{T: "panic"})
		}
		h := int(atomic.AddInt32(&s.hcount, 1)) - 1
		s.gate(fmt.Sprintf("h:%d:%d", k, h))
		return nil
	}
	var base client.Client
	switch c.Kind {
	case "cache", "recache":
		base = client.New()
	default:
		base = &client.BaseClient{}
	}
	var cl client.Client = base
	if c.reconnect() && c.NoCB {
		cl = client.Reconnect(base, nil, nil)
	} else if c.reconnect() {
		cl = client.Reconnect(base,
			func() {
				defer func() { atomic.StoreInt64(&s.lastDisc, time.Now().UnixNano()) }()
				k := int(atomic.LoadInt32(&s.curAttempt))
				s.log(Ev{T: "disc"})
				s.gate(fmt.Sprintf("disc:%d", k))
				for idx, a := range c.Ops {
					if a.Gate == fmt.Sprintf("sleep:%d", k) {
						s.mu.Lock()
						done := s.fired[idx]
						s.fired[idx] = true
						s.mu.Unlock()
						if !done {
							a := a
							go func() {
								time.Sleep(time.Duration(a.Delay) * time.Microsecond)
								if !s.isDead() {
									s.act(a, false)
								}
							}()
						}
					}
				}
			},
			func() {
				k := int(atomic.LoadInt32(&s.curAttempt))
				if d := atomic.LoadInt64(&s.lastDisc); d != 0 && time.Now().UnixNano()-d < int64(client.RetryBaseDelay)/2 {
					s.log(Ev{T: "nobackoff"}) // the retry did not wait for (half of) the smallest backoff interval
				}
				s.log(Ev{T: "reset"})
				s.gate(fmt.Sprintf("reset:%d", k))
			})
	}
	s.closer = cl.Close
	s.poller = cl.Poll
	ctx, cancel := context.WithCancel(context.Background())
	s.parentCancel = cancel
	defer cancel()
	q := client.Query{Addrs: []string{s.id}, Type: client.Stream, Queries: []client.Path{{"*"}}, NotificationHandler: handler}
	for _, a := range c.Ops {
		if strings.HasPrefix(a.What, "poll") {
			q.Type = client.Poll // BaseClient.Poll insists on a Poll query
		}
	}

	// "before": the act completes before Subscribe is called
	for idx, a := range c.Ops {
		if a.Gate == "before" && !s.fired[idx] {
			s.fired[idx] = true
			s.act(a, false)
			if a.What == "close" {
				select {
				case <-s.closeDone:
				case <-time.After(watchdog):
					atomic.AddInt32(&hangCount, 1)
					s.log(Ev{T: "hang"})
					s.freeze()
					return s.snapshot()
				}
			}
		}
	}
	subDone := make(chan struct{})
	start := make(chan struct{})
	for idx, a := range c.Ops {
		if a.Gate == "race" && !s.fired[idx] {
			s.fired[idx] = true
			a := a
			go func() {
				<-start
				if a.Delay > 0 {
					time.Sleep(time.Duration(a.Delay) * time.Microsecond)
				}
				s.act(a, false)
			}()
		}
	}
	go func() {
		defer close(subDone)
		defer func() {
			if r := recover(); r != nil {
				s.log(Ev{T: "panic"})
			}
		}()
		<-start
		if c.SubDelay > 0 {
			time.Sleep(time.Duration(c.SubDelay) * time.Microsecond)
		}
		s.log(Ev{T: "subcall"})
		err := cl.Subscribe(ctx, q, "c18")
		r := rcls(err)
		if !c.reconnect() && r == "canceled" {
			r = "other" // a bare client hands the transport's error through; only nil / non-nil is specified
		}
		s.log(Ev{T: "subret", R: r})
	}()
	close(start)
	timer := time.NewTimer(watchdog)
	defer timer.Stop()
	hang := func() []Ev {
		atomic.AddInt32(&hangCount, 1)
		s.log(Ev{T: "hang"})
		s.freeze()
		s.kill()
		cancel()
		return s.snapshot()
	}
	select {
	case <-subDone:
	case <-timer.C:
		return hang()
	}
	for idx, a := range c.Ops {
		if a.Gate == "end" && !s.fired[idx] {
			s.fired[idx] = true
			s.act(a, false)
		}
	}
	// a race/sleep act that has not started yet is dropped; one that has is awaited
	s.mu.Lock()
	s.ending = true
	s.mu.Unlock()
	if s.closeWasCalled() {
		select {
		case <-s.closeDone:
		case <-timer.C:
			return hang()
		}
	}
	// Poll calls the acts made must have returned as well
	for {
		s.mu.Lock()
		ws := s.pending
		s.pending = nil
		s.mu.Unlock()
		if len(ws) == 0 {
			break
		}
		for _, w := range ws {
			select {
			case <-w:
			case <-timer.C:
				return hang()
			}
		}
	}
	// further calls on the same client
	atomic.StoreInt32(&s.inThen, 1)
	subscribe := func() chan struct{} {
		done := make(chan struct{})
		go func() {
			defer close(done)
			defer func() {
				if r := recover(); r != nil {
					s.log(Ev{T: "panic"})
				}
			}()
			s.log(Ev{T: "subcall"})
			err := cl.Subscribe(ctx, q, "c18")
			r := rcls(err)
			if !c.reconnect() && r == "canceled" {
				r = "other"
			}
			s.log(Ev{T: "subret", R: r})
		}()
		return done
	}
	closeIt := func() chan struct{} {
		done := make(chan struct{})
		atomic.StoreInt32(&s.stopCalled, 1)
		go func() {
			defer close(done)
			defer func() {
				if r := recover(); r != nil {
					s.log(Ev{T: "panic"})
				}
			}()
			s.log(Ev{T: "closecall"})
			err := s.closer()
			s.log(Ev{T: "closeret", OK: closeOK(err)})
		}()
		return done
	}
	for _, call := range c.Then {
		var waits []chan struct{}
		switch call {
		case "sub":
			waits = append(waits, subscribe())
		case "close":
			waits = append(waits, closeIt())
		case "subclose":
			if c.reconnect() {
				waits = append(waits, subscribe(), closeIt())
			} else {
				waits = append(waits, closeIt())
			}
		}
		for len(waits) > 0 {
			for _, w := range waits {
				select {
				case <-w:
				case <-timer.C:
					return hang()
				}
			}
			// Close calls the gates started meanwhile
			s.mu.Lock()
			waits = s.pending
			s.pending = nil
			s.mu.Unlock()
		}
	}
	s.mu.Lock()
	for _, kn := range s.kept {
		same := len(kn.got) == len(kn.copy)
		for i := 0; same && i < len(kn.got); i++ {
			same = kn.got[i] == kn.copy[i]
		}
		if !same {
			if !s.frozen {
				s.trace = append(s.trace, Ev{T: "corrupt"})
			}
			break
		}
	}
	s.mu.Unlock()
	s.freeze()
	s.kill()
	return s.snapshot()
}

// asyncClose calls Close from a goroutine of its own during the later calls of a
// bare client and waits for it a little (inside a transport's Close the
// subscriber may hold c.mu, so Close cannot return before the gate is left).
func (s *scen) asyncClose(short bool) {
	s.mu.Lock()
	if s.thenClosing {
		s.mu.Unlock()
		return
	}
	s.thenClosing = true
	s.mu.Unlock()
	atomic.StoreInt32(&s.stopCalled, 1)
	done := make(chan struct{})
	go func() {
		defer close(done)
		defer func() {
			if r := recover(); r != nil {
				s.log(Ev{T: "panic"})
			}
			s.mu.Lock()
			s.thenClosing = false
			s.mu.Unlock()
		}()
		s.log(Ev{T: "closecall"})
		err := s.closer()
		s.log(Ev{T: "closeret", OK: closeOK(err)})
	}()
	wait := time.Second
	if short {
		wait = 20 * time.Millisecond
	}
	select {
	case <-done:
	case <-time.After(wait):
	case <-s.dead:
	}
	s.mu.Lock()
	s.pending = append(s.pending, done)
	s.mu.Unlock()
}

// doPoll calls Poll() from a goroutine of its own and waits until the round is
// outstanding in the transport's Recv or Poll has returned.
func (s *scen) doPoll(answers bool) {
	s.mu.Lock()
	if s.ending || s.pollOut != nil {
		s.mu.Unlock()
		return
	}
	out := make(chan struct{})
	s.pollAnswers, s.pollOut = answers, out
	if !s.frozen {
		s.trace = append(s.trace, Ev{T: "pollcall", OK: answers})
	}
	s.mu.Unlock()
	done := make(chan struct{})
	go func() {
		defer close(done)
		defer func() {
			if r := recover(); r != nil {
				s.log(Ev{T: "panic"})
			}
		}()
		err := s.poller()
		s.log(Ev{T: "pollret", OK: err == nil})
		s.mu.Lock()
		s.pollOut = nil
		s.mu.Unlock()
	}()
	select {
	case <-out:
	case <-done:
	case <-s.dead:
	case <-time.After(time.Second):
	}
	s.mu.Lock()
	s.pending = append(s.pending, done)
	s.mu.Unlock()
}

// thenCancel cancels the caller's context during the later calls (the only
// thing that stops a bare client whose new Subscribe blocks).
func (s *scen) thenCancel() {
	s.mu.Lock()
	if !s.cancelCalled {
		s.cancelCalled = true
		if !s.frozen {
			s.trace = append(s.trace, Ev{T: "cancelcall"})
		}
	}
	s.mu.Unlock()
	s.parentCancel()
}

func (s *scen) freeze() {
	s.mu.Lock()
	s.frozen = true
	s.mu.Unlock()
}

func (s *scen) snapshot() []Ev {
	s.mu.Lock()
	defer s.mu.Unlock()
	return append([]Ev{}, s.trace...)
}

// ---------------------------------------------------------------------------
// Gallina

func itemTerm(it Item) string {
	switch it.K {
	case "msg":
		return fmt.Sprintf("IMsg %d", it.N)
	case "err":
		return "IErr"
	case "eof":
		return "IEof"
	case "blockq":
		return "IBlockQ"
	}
	return "IBlock"
}

func evTerm(e Ev) string {
	switch e.T {
	case "subcall":
		return "ESubCall"
	case "closecall":
		return "ECloseCall"
	case "cancelcall":
		return "ECancelCall"
	case "factory":
		return fmt.Sprintf("EFactory %d", e.K)
	case "implsub":
		return fmt.Sprintf("EImplSub %d", e.K)
	case "recv":
		return fmt.Sprintf("ERecv %d %d", e.K, e.I)
	case "implclose":
		return fmt.Sprintf("EImplClose %d", e.K)
	case "conn":
		return "EConn"
	case "upd":
		return fmt.Sprintf("EUpd %d %d %d", e.K, e.I, e.J)
	case "sync":
		return "ESync"
	case "disc":
		return "EDisc"
	case "reset":
		return "EReset"
	case "subret":
		switch e.R {
		case "nil":
			return "ESubRet RNil"
		case "canceled":
			return "ESubRet RCanceled"
		}
		return "ESubRet ROther"
	case "closeret":
		return "ECloseRet " + vh.Bool(e.OK)
	case "pollcall":
		return "EPollCall " + vh.Bool(e.OK)
	case "pollret":
		return "EPollRet " + vh.Bool(e.OK)
	case "hang":
		return "EHang"
	case "corrupt":
		return "ECorrupt"
	case "nobackoff":
		return "ENoBackoff"
	case "race":
		return "ERace"
	}
	return "EPanic"
}

func caseTerm(c Case) string {
	as := make([]string, len(c.Attempts))
	for i, a := range c.Attempts {
		its := make([]string, len(a.Items))
		for j, it := range a.Items {
			its[j] = itemTerm(it)
		}
		as[i] = fmt.Sprintf("{| a_init := %s; a_sub := %s; a_items := %s |}", vh.Bool(a.Init), vh.Bool(a.Sub), vh.List(its))
	}
	es := make([]string, len(c.Trace))
	for i, e := range c.Trace {
		es[i] = evTerm(e)
	}
	return fmt.Sprintf("(%s, %s, %s, %s)", vh.Bool(c.reconnect()), vh.Bool(!(c.reconnect() && c.NoCB)), vh.List(as), vh.List(es))
}

// ---------------------------------------------------------------------------
// generators

func msg() Item              { return Item{K: "msg", N: 1} }
func msg3() Item             { return Item{K: "msg", N: 3} }
func eof() Item              { return Item{K: "eof"} }
func stop() Item             { return Item{K: "eof", Stop: true} }
func ierr() Item             { return Item{K: "err"} }
func ierrK(kind string) Item { return Item{K: "err", E: kind} }
func block() Item            { return Item{K: "block"} }
func blockq() Item           { return Item{K: "blockq"} }
func ok(items ...Item) Attempt {
	return Attempt{Init: true, Sub: true, Items: items}
}

// curated scripts: every kind of attempt ending, first attempts ending with nil
// (fast backoff) and with an error (the first interval is then the library's
// default 500ms whatever RetryBaseDelay says).
func scripts() [][]Attempt {
	return [][]Attempt{
		{ok(msg(), block())},
		{ok(block())},
		{ok(msg(), msg3(), msg(), block())},
		{ok(msg(), eof()), ok(msg(), block())},
		{ok(msg(), stop()), ok(msg(), ierrK("canceled")), ok(msg(), msg(), block())},
		{ok(), ok(msg(), msg()), ok(block())},
		{ok(eof()), {Init: false, IE: "canceled"}, {Init: true, Sub: false, SE: "deadline"}, ok(msg(), block())},
		{ok(msg(), eof()), ok(ierrK("grpccanceled")), ok(msg(), msg(), eof()), ok(block())},
		{ok(msg(), ierrK("eofwrapped")), ok(msg(), block())},
		{{Init: false, IE: "deadline"}, ok(msg(), block())},
		{ok(msg(), msg(), msg(), msg(), msg(), msg())},
		{ok(stop()), ok(msg(), msg(), msg(), eof()), ok(msg(), msg(), msg(), ierrK("stopwrapped"))},
		{ok(msg(), eof()), ok(ierrK("canceled")), ok(msg(), ierrK("deadline")), ok(msg(), ierr()), ok(block())},
	}
}

// gates lists the injection points a script offers.
func gates(as []Attempt, reconnect bool) []string {
	gs := []string{"before", "race"}
	n := len(as)
	if !reconnect {
		n = 1
	}
	for k := 0; k < n; k++ {
		a := as[k]
		gs = append(gs, fmt.Sprintf("init:%d", k))
		if a.Dial != "" {
			gs = append(gs, fmt.Sprintf("dial:%d", k))
		}
		if a.Init {
			gs = append(gs, fmt.Sprintf("sub:%d", k))
		}
		if a.Init && a.Sub {
			gs = append(gs, fmt.Sprintf("postsub:%d", k))
			h := 0
			conn := false
			ended := false
			for i, it := range a.Items {
				gs = append(gs, fmt.Sprintf("recv:%d:%d", k, i))
				if it.K != "msg" {
					ended = true
					break
				}
				cnt := it.N
				if !conn {
					cnt++
					conn = true
				}
				for j := 0; j < cnt; j++ {
					gs = append(gs, fmt.Sprintf("h:%d:%d", k, h))
					h++
				}
			}
			if !ended {
				gs = append(gs, fmt.Sprintf("recv:%d:%d", k, len(a.Items)))
				gs = append(gs, fmt.Sprintf("h:%d:%d", k, h))
			}
		}
		if reconnect {
			gs = append(gs, fmt.Sprintf("disc:%d", k), fmt.Sprintf("sleep:%d", k), fmt.Sprintf("reset:%d", k))
		}
	}
	return gs
}

var kinds = []string{"rebase", "recache", "base", "cache"}

func randScript(r *vh.Rand, allowEmpty bool) []Attempt {
	n := 1 + r.Intn(4)
	as := make([]Attempt, n)
	for k := range as {
		switch r.Pick(2, 2, 20, 1) {
		case 0:
			as[k] = Attempt{Init: false, IE: errKinds[r.Intn(len(errKinds))]}
			continue
		case 1:
			as[k] = Attempt{Init: true, Sub: false, SE: errKinds[r.Intn(len(errKinds))]}
			continue
		case 3:
			as[k] = Attempt{Dial: []string{"silent", "refuse", "closing"}[r.Intn(3)]}
			continue
		}
		var its []Item
		m := r.Intn(5)
		for i := 0; i < m; i++ {
			n := 1 + r.Pick(5, 2, 1)
			if allowEmpty && r.Chance(1, 6) {
				n = 0 // a notification without updates (the gnmi decoder still reports Connected)
			}
			its = append(its, Item{K: "msg", N: n})
		}
		switch r.Pick(3, 2, 2, 3, 2) {
		case 0:
			if k > 0 && r.Chance(1, 4) {
				its = append(its, blockq())
			} else {
				its = append(its, block())
			}
		case 1:
			its = append(its, eof())
		case 2:
			its = append(its, stop())
		case 3:
			its = append(its, ierrK(errKinds[r.Intn(len(errKinds))]))
		}
		as[k] = ok(its...)
		if r.Chance(1, 3) {
			as[k].CE = []string{"always", "second", "afterfail"}[r.Intn(3)]
		}
	}
	// mostly start with an attempt that ends with nil so that the backoff is short
	if r.Chance(4, 5) && !(as[0].Init && as[0].Sub && len(as[0].Items) > 0 && as[0].Items[len(as[0].Items)-1].K == "eof") {
		as = append([]Attempt{ok(msg(), eof())}, as...)
	}
	return as
}

func randActs(r *vh.Rand, as []Attempt, reconnect bool) []Act {
	gs := append(gates(as, reconnect), "end")
	var acts []Act
	n := 1 + r.Intn(2)
	for i := 0; i < n; i++ {
		a := Act{Gate: gs[r.Intn(len(gs))]}
		if r.Chance(3, 4) {
			a.What = "close"
		} else {
			a.What = "cancel"
		}
		a.Delay = []int{0, 0, 100, 500, 3000}[r.Intn(5)]
		if strings.HasPrefix(a.Gate, "dial") {
			a.Delay = []int{0, 2000, 20000, 60000}[r.Intn(4)]
		}
		acts = append(acts, a)
	}
	return acts
}

func nontrivial(c Case) bool {
	h, stop := false, false
	for _, e := range c.Trace {
		switch e.T {
		case "conn", "upd", "sync":
			h = true
		case "closecall", "cancelcall":
			stop = true
		}
	}
	return h && stop
}

func canonical(c Case) string {
	b, _ := json.Marshal([]interface{}{c.Kind, c.Inner, c.Attempts, c.Ops, c.Then, c.NoCB, c.SubDelay})
	return string(b)
}

// ---------------------------------------------------------------------------

type emitter struct {
	dir   string
	shard int
	cf    *vh.CaseFile
	meta  *vh.Meta
	limit int
}

func (e *emitter) emit(c Case) {
	e.cf.Add(caseTerm(c), c)
	e.meta.Hist("kind:" + c.Kind)
	e.meta.Hist("decoder:" + c.Inner)
	for _, a := range c.Ops {
		e.meta.Hist("act:" + a.What + "@" + strings.SplitN(a.Gate, ":", 2)[0])
	}
	for _, ev := range c.Trace {
		if ev.T == "hang" || ev.T == "panic" {
			e.meta.Hist("outcome:" + ev.T)
		}
	}
	e.meta.Hist(fmt.Sprintf("attempts:%d", len(c.Attempts)))
	e.meta.Hist(fmt.Sprintf("later-calls:%d", len(c.Then)))
	e.meta.Hist(fmt.Sprintf("tracelen:%02d", (len(c.Trace)/10)*10))
	e.meta.Count(c.Family, canonical(c), nontrivial(c), c)
	if e.cf.Len() >= e.limit {
		e.flush()
	}
}

func (e *emitter) flush() {
	if e.cf.Len() == 0 {
		return
	}
	if err := e.cf.Write(e.dir, e.shard, "Client.ClientModel Client.ClientCheck", "case", "check_all"); err != nil {
		vh.Die("write: %v", err)
	}
	e.shard++
	e.cf = vh.NewCaseFile()
}

// runAll executes the scenarios with bounded parallelism, keeping their order.
func runAll(cs []Case, par int) {
	var wg sync.WaitGroup
	sem := make(chan struct{}, par)
	for i := range cs {
		wg.Add(1)
		sem <- struct{}{}
		go func(i int) {
			defer wg.Done()
			defer func() { <-sem }()
			if atomic.LoadInt32(&hangCount) >= maxHangs {
				return
			}
			cs[i].Trace = runCase(cs[i])
		}(i)
	}
	wg.Wait()
}

func readCases(path string) []Case {
	b, err := os.ReadFile(path)
	if err != nil {
		vh.Die("read %s: %v", path, err)
	}
	var cs []Case
	if json.Unmarshal(b, &cs) != nil {
		var one Case
		if err := json.Unmarshal(b, &one); err != nil {
			vh.Die("%s unreadable: %v", path, err)
		}
		cs = []Case{one}
	}
	return cs
}

func main() {
	flag.Set("logtostderr", "true")
	flag.Set("stderrthreshold", "FATAL")
	o := vh.ParseFlags()
	if null, err := os.OpenFile(os.DevNull, os.O_WRONLY, 0); err == nil {
		os.Stderr = null // glog writes through os.Stderr
	}
	client.RetryBaseDelay = 2 * time.Millisecond
	client.RetryMaxDelay = 8 * time.Millisecond
	client.RetryRandomization = 0
	setupDialTargets()
	if err := client.RegisterTest("c18", factory); err != nil {
		vh.Die("register: %v", err)
	}
	meta := vh.NewMeta("corpus; systematic: 12 curated transport scripts x 4 client kinds x every injection point the script offers (before / racing with Subscribe, transport constructor, Impl.Subscribe, every Recv, every handler invocation, disconnect callback, backoff sleep, reset callback) x {Close, cancel}; random: scripts of 1..5 attempts with 0..4 messages each and every kind of ending, 1..2 actions at random points with random release delays. distinct = distinct (kind, script, actions); non-trivial = at least one handler invocation and at least one Close/cancel")
	e := &emitter{dir: o.Out, cf: vh.NewCaseFile(), meta: meta, limit: 400}
	par := 48

	var cs []Case
	if o.Replay != "" {
		cs = readCases(o.Replay)
		for i := range cs {
			if cs[i].Family == "" {
				cs[i].Family = "replay"
			}
		}
	} else {
		if dir := os.Getenv("VERIF_CORPUS"); dir != "" {
			ents, _ := os.ReadDir(dir)
			for _, en := range ents {
				if strings.HasSuffix(en.Name(), ".json") {
					for _, c := range readCases(dir + "/" + en.Name()) {
						c.Family = "corpus"
						cs = append(cs, c)
					}
				}
			}
		}
		if o.Tier == "race" {
			// the small family run under the race detector: Close racing Subscribe at
			// its start, and later calls, through a ReconnectClient
			for _, kind := range []string{"rebase", "recache"} {
				for _, d := range []int{0, 5, 20, 100, 300} {
					for _, sd := range []int{0, 5, 20, 100, 300} {
						for rep := 0; rep < 3; rep++ {
							cs = append(cs, Case{Family: "race", Kind: kind, Inner: "fake", Attempts: []Attempt{ok(msg(), block())}, Ops: []Act{{Gate: "race", What: "close", Delay: d}}, SubDelay: sd, Then: []string{"subclose", "sub"}})
						}
					}
				}
				cs = append(cs, Case{Family: "race", Kind: kind, Inner: "gnmi", Attempts: []Attempt{ok(msg(), eof()), ok(msg3(), block())}, Ops: []Act{{Gate: "h:1:1", What: "close"}}, Then: []string{"sub", "close"}})
				cs = append(cs, Case{Family: "race", Kind: kind, Inner: "fake", Attempts: []Attempt{ok(msg(), ierr()), ok(block())}, Ops: []Act{{Gate: "sleep:0", What: "close", Delay: 500}}})
			}
			for _, kind := range []string{"base", "cache"} {
				cs = append(cs, Case{Family: "race", Kind: kind, Inner: "fake", Attempts: []Attempt{ok(msg(), msg(), msg(), block())}, Ops: []Act{{Gate: "postsub:0", What: "close", Delay: 5}}, Then: []string{"close", "sub"}})
				cs = append(cs, Case{Family: "race", Kind: kind, Inner: "fake", Attempts: []Attempt{ok(msg(), msg(), msg(), block())}, Ops: []Act{{Gate: "race", What: "close", Delay: 50}}})
			}
			runAll(cs, par)
			for _, c := range cs {
				if c.Trace != nil {
					e.emit(c)
				}
			}
			e.flush()
			meta.Write(o.Out)
			return
		}
		// the real client/gnmi constructor against targets that never connect
		dkinds := []string{"rebase", "base"}
		if o.Thorough() {
			dkinds = []string{"rebase", "recache", "base", "cache"}
		}
		for _, target := range []string{"silent", "refuse", "closing"} {
			for _, kind := range dkinds {
				rc := strings.HasPrefix(kind, "re")
				scs := [][]Attempt{{{Dial: target}}}
				if rc {
					scs = append(scs, []Attempt{ok(msg(), eof()), {Dial: target}})
				}
				for _, as := range scs {
					k := len(as) - 1
					whats := []string{"cancel"}
					if rc {
						whats = []string{"close", "cancel"}
					}
					cs = append(cs, Case{Family: "dial", Kind: kind, Inner: "fake", Attempts: as})
					for _, what := range whats {
						cs = append(cs, Case{Family: "dial", Kind: kind, Inner: "fake", Attempts: as, Ops: []Act{{Gate: fmt.Sprintf("init:%d", k), What: what}}})
						for _, d := range []int{0, 3000, 30000} {
							cs = append(cs, Case{Family: "dial", Kind: kind, Inner: "fake", Attempts: as, Ops: []Act{{Gate: fmt.Sprintf("dial:%d", k), What: what, Delay: d}}})
						}
					}
				}
			}
		}
		// sequences of calls on one client: Subscribe ... Close ... Subscribe ...
		rcThens := [][]string{{"sub"}, {"sub", "sub"}, {"sub", "sub", "sub"}, {"close", "sub", "sub"},
			{"sub", "close", "sub"}, {"subclose"}, {"subclose", "sub", "sub"}, {"close", "close", "sub"},
			{"sub", "subclose", "sub"}}
		baseThens := [][]string{{"sub"}, {"close", "sub"}, {"sub", "close", "sub"}, {"close", "close", "sub", "sub"},
			{"sub", "sub", "close"}, {"close"}}
		seqScripts := [][]Attempt{
			{ok(msg(), block())},
			{ok(msg(), eof()), ok(msg(), block()), ok(msg(), msg()), ok(msg(), block())},
			{ok(msg(), msg(), block()), ok(msg(), eof()), ok(msg(), block()), ok(msg3())},
		}
		for _, kind := range kinds {
			rc := strings.HasPrefix(kind, "re")
			thens := baseThens
			firsts := [][]Act{nil, {{Gate: "recv:0:1", What: "close"}}, {{Gate: "recv:0:1", What: "cancel"}}, {{Gate: "before", What: "close"}}, {{Gate: "h:0:1", What: "close"}}}
			if rc {
				thens = rcThens
				firsts = append(firsts, []Act{{Gate: "race", What: "close"}}, []Act{{Gate: "init:0", What: "close"}})
			}
			for si, as := range seqScripts {
				for fi, first := range firsts {
					for ti, th := range thens {
						inner := []string{"fake", "gnmi"}[(si+fi+ti)%2]
						if !o.Thorough() && (si+fi+ti)%2 == 1 && (kind == "recache" || kind == "cache") {
							continue
						}
						cs = append(cs, Case{Family: "calls", Kind: kind, Inner: inner, Attempts: as, Ops: first, Then: th, NoCB: rc && (si+2*fi+ti)%5 == 0})
					}
				}
			}
		}
		// Close / cancel at every point of a RE-subscribe, including inside the slow
		// Close of the previous transport, with quiet streams their context does not wake
		resubScripts := []struct {
			as   []Attempt
			k, n int // the teardown is the n-th Close call on the transport of attempt k
		}{
			{[]Attempt{ok(msg(), eof()), ok(blockq())}, 0, 0},
			{[]Attempt{ok(msg(), eof()), ok(msg(), blockq())}, 0, 0},
			{[]Attempt{ok(msg(), ierr()), ok(msg(), msg3(), blockq())}, 0, 1},
			{[]Attempt{ok(msg(), eof()), ok(msg(), stop()), ok(blockq())}, 1, 0},
			{[]Attempt{ok(msg(), eof()), ok(msg(), block())}, 0, 0},
		}
		for _, kind := range kinds {
			rc := strings.HasPrefix(kind, "re")
			for si, rs := range resubScripts {
				k2 := rs.k + 1 // the attempt that re-subscribes
				points := []string{fmt.Sprintf("implclose:%d:%d", rs.k, rs.n), fmt.Sprintf("init:%d", k2), fmt.Sprintf("sub:%d", k2),
					fmt.Sprintf("postsub:%d", k2), fmt.Sprintf("recv:%d:0", k2)}
				if rc {
					points = append(points, fmt.Sprintf("reset:%d", rs.k), fmt.Sprintf("disc:%d", rs.k))
				}
				for pi, g := range points {
					for _, d := range []int{0, 300} {
						inner := []string{"fake", "gnmi"}[(si+pi)%2]
						c := Case{Family: "resub", Kind: kind, Inner: inner, Ops: []Act{{Gate: g, What: "close", Delay: d}}}
						if rc {
							c.Attempts = rs.as
						} else {
							// a reused bare client: one Subscribe per attempt
							c.Attempts = rs.as
							for j := 1; j < len(rs.as); j++ {
								c.Then = append(c.Then, "sub")
							}
						}
						cs = append(cs, c)
					}
				}
			}
		}
		// faults of the transport's own Close (an error always / from the second call
		// on / once a Recv has failed) at every point where Close can arrive
		cfScripts := [][]Attempt{
			{ok(msg(), msg(), msg(), msg(), block())},
			{ok(msg(), ierr()), ok(msg(), msg(), msg(), block())},
			{ok(msg(), eof()), ok(msg(), msg3(), msg(), blockq())},
		}
		for _, kind := range kinds {
			rc := strings.HasPrefix(kind, "re")
			for si, base := range cfScripts {
				for ci, ce := range []string{"always", "second", "afterfail"} {
					as := make([]Attempt, len(base))
					copy(as, base)
					for j := range as {
						as[j].CE = ce
					}
					var then []string
					if !rc {
						for j := 1; j < len(as); j++ {
							then = append(then, "sub")
						}
					}
					last := len(as) - 1
					points := []string{fmt.Sprintf("recv:%d:1", last), fmt.Sprintf("h:%d:1", last), fmt.Sprintf("recv:%d:0", last),
						fmt.Sprintf("init:%d", last), fmt.Sprintf("sub:%d", last), fmt.Sprintf("postsub:%d", last)}
					if last > 0 {
						points = append(points, fmt.Sprintf("implclose:%d:%d", last-1, map[bool]int{true: 1, false: 0}[si == 1]))
					}
					for pi, g := range points {
						inner := []string{"fake", "gnmi"}[(si+ci+pi)%2]
						cs = append(cs, Case{Family: "closefault", Kind: kind, Inner: inner, Attempts: as, Ops: []Act{{Gate: g, What: "close"}}, Then: then})
					}
				}
			}
		}
		// the other exported calls concurrent with Close: a Poll round (answered, or
		// outstanding in Recv on a stalled target) with Close / cancel from another
		// goroutine, on every kind of client
		pollScripts := [][]Attempt{
			{ok(msg(), block())},
			{ok(msg(), eof()), ok(msg(), msg(), block())},
			{ok(msg(), blockq())},
			{ok(msg(), msg(), msg(), msg(), block())},
		}
		for _, kind := range kinds {
			rc := strings.HasPrefix(kind, "re")
			for si, as := range pollScripts {
				last := len(as) - 1
				if !rc {
					as = as[last:]
					last = 0
				}
				li := len(as[last].Items) - 1
				points := []string{fmt.Sprintf("recv:%d:%d", last, li), fmt.Sprintf("recv:%d:0", last), fmt.Sprintf("h:%d:1", last), fmt.Sprintf("init:%d", last), fmt.Sprintf("postsub:%d", last)}
				for pi, g := range points {
					for _, pw := range []string{"pollstall", "poll"} {
						for _, stop := range []string{"close", "cancel", ""} {
							if stop == "cancel" && as[last].Items[li].K == "blockq" {
								continue // a quiet stream is not woken by the context
							}
							ops := []Act{{Gate: g, What: pw}}
							if stop != "" {
								ops = append(ops, Act{Gate: g, What: stop})
							}
							inner := []string{"fake", "gnmi"}[(si+pi)%2]
							cs = append(cs, Case{Family: "poll", Kind: kind, Inner: inner, Attempts: as, Ops: ops})
						}
					}
				}
			}
		}
		delays := []int{0}
		if o.Thorough() {
			delays = []int{0, 50, 300, 2000}
		}
		for _, as := range scripts() {
			for ki, kind := range kinds {
				for _, inner := range []string{"fake", "gnmi"} {
					if !o.Thorough() && ki%2 == 1 && inner == "gnmi" {
						continue // quick tier: the cache kinds only with the fake decoder
					}
					rc := strings.HasPrefix(kind, "re")
					for _, g := range gates(as, rc) {
						for _, what := range []string{"close", "cancel"} {
							for _, d := range delays {
								if strings.HasPrefix(g, "sleep") {
									d += 500
								}
								cs = append(cs, Case{Family: "systematic", Kind: kind, Inner: inner, Attempts: as, Ops: []Act{{Gate: g, What: what, Delay: d}}})
							}
						}
					}
					cs = append(cs, Case{Family: "systematic", Kind: kind, Inner: inner, Attempts: as})
				}
			}
		}
		r := vh.NewRand(o.Seed)
		nrand := 4000
		if o.Thorough() {
			nrand = 120000
		}
		for i := 0; i < nrand; i++ {
			rr := r.Fork()
			kind := kinds[rr.Pick(4, 3, 2, 1)]
			inner := []string{"fake", "gnmi"}[rr.Intn(2)]
			as := randScript(rr, inner == "gnmi")
			var then []string
			if rr.Chance(1, 3) {
				n := 1 + rr.Intn(4)
				for j := 0; j < n; j++ {
					then = append(then, []string{"sub", "sub", "close", "subclose"}[rr.Intn(4)])
				}
			}
			cs = append(cs, Case{Family: "random", Kind: kind, Inner: inner, Attempts: as, Ops: randActs(rr, as, strings.HasPrefix(kind, "re")), Then: then,
				NoCB: strings.HasPrefix(kind, "re") && rr.Chance(1, 8)})
		}
	}
	runAll(cs, par)
	skipped := 0
	for _, c := range cs {
		if c.Trace == nil {
			skipped++
			continue
		}
		e.emit(c)
	}
	if skipped > 0 {
		meta.Extra["skipped_after_hangs"] = skipped
	}
	e.flush()
	meta.Exhaustive = false
	if err := meta.Write(o.Out); err != nil {
		vh.Die("meta: %v", err)
	}
}

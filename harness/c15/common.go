// Shared by the C14 and C15 harnesses (harness/c15/common.go is a verbatim
// copy; the two differ in main.go / gen.go).
//
// Drives one real cache.Cache per case with a sequence of API calls, under a
// clock fixed per call (cache.Now is overridden), with a real subscribe.Server
// registered as the cache's client.  Recorded per call: the error class, the
// notifications handed to the SetClient callback (projected inside the
// callback, metadata entries included), and for every name the case mentions:
// HasTarget, Query(name, [*]) (metadata leaves included) and the values of
// Cache.Metadata()[name]; Query("*", [*]); and for every subscriber attached so
// far the responses it received during the call and whether its RPC returned.
package main

import (
	"bytes"
	"context"
	"encoding/json"
	"flag"
	"fmt"
	"io"
	"net"
	"os"
	"runtime"
	"sort"
	"strings"
	"sync"
	"time"

	log "github.com/golang/glog"
	"github.com/openconfig/gnmi/cache"
	"github.com/openconfig/gnmi/ctree"
	"github.com/openconfig/gnmi/errlist"
	"github.com/openconfig/gnmi/metadata"
	"github.com/openconfig/gnmi/subscribe"
	"github.com/openconfig/gnmi/zz_verif/vh"
	"google.golang.org/grpc"
	"google.golang.org/grpc/codes"
	"google.golang.org/grpc/peer"
	"google.golang.org/grpc/status"

	pb "github.com/openconfig/gnmi/proto/gnmi"
)

var _ = log.V

// ---------------------------------------------------------------------------
// JSON shapes

type ElemJ struct {
	Name string            `json:"n"`
	Keys map[string]string `json:"k,omitempty"`
}

type PathJ struct {
	Target  string   `json:"t,omitempty"`
	Origin  string   `json:"o,omitempty"`
	Elems   []ElemJ  `json:"e,omitempty"`
	Element []string `json:"el,omitempty"`
}

// ValJ: K is one of str int uint bool bytes json none.
type ValJ struct {
	K string `json:"k"`
	S string `json:"s,omitempty"`
	I int64  `json:"i,omitempty"`
	B bool   `json:"b,omitempty"`
}

type UpdJ struct {
	Path *PathJ `json:"p,omitempty"`
	Val  *ValJ  `json:"v,omitempty"`
	Dup  uint32 `json:"d,omitempty"`
}

type NotiJ struct {
	TS     int64   `json:"ts"`
	Prefix *PathJ  `json:"pfx,omitempty"`
	Upd    []UpdJ  `json:"u,omitempty"`
	Del    []PathJ `json:"d,omitempty"`
	Atomic bool    `json:"a,omitempty"`
}

// Op kinds: upd reset remove add sync connect connecterror updatemeta
// updatesize sub subp unsub gate ungate subwalk.  Sizes is filled in by the runner (updatesize).
// gate / ungate: every subscriber's Send blocks / is released (backlogs).
// subwalk: a STREAM subscriber WITH the initial walk; when Rm is set,
// Cache.Remove(Rm) runs at the hook point process:before-walk of that RPC.
type Op struct {
	K     string           `json:"k"`
	Now   int64            `json:"now,omitempty"`
	TS    int64            `json:"ts,omitempty"` // latency cases: timestamp handed to Compute
	Tgt   string           `json:"tgt,omitempty"`
	Msg   string           `json:"msg,omitempty"`
	Rm    string           `json:"rm,omitempty"` // subwalk: target removed between registration and walk
	SP    []string         `json:"sp,omitempty"` // subp: subscription path below the target
	Idx   int              `json:"idx,omitempty"` // unsub: which subscriber disconnects
	N     *NotiJ           `json:"n,omitempty"`
	Sizes map[string]int64 `json:"sizes,omitempty"`
}

type PNJ struct {
	Path []string `json:"p"`
	N    NotiJ    `json:"n"`
}

// MetaJ: values of the registered names in the model's order; nil = unset.
type MetaJ struct {
	Ints  []*int64  `json:"i"`
	Bools []*bool   `json:"b"`
	Strs  []*string `json:"s"`
	Srv   *string   `json:"srv,omitempty"` // GetStr(serverName); nil: not registered / unset
}

type TObsJ struct {
	Name    string `json:"name"`
	Has     bool   `json:"has"`
	HasDump bool   `json:"hasdump"`
	Dump    []PNJ  `json:"dump,omitempty"`
	Meta    *MetaJ `json:"meta,omitempty"`
}

type RespJ struct {
	Sync bool   `json:"sync,omitempty"`
	N    *NotiJ `json:"n,omitempty"`
}

type SubObsJ struct {
	Resp []RespJ `json:"resp,omitempty"`
	Stat string  `json:"stat"` // running ok notfound err
}

type WStatJ struct {
	Avg *int64 `json:"avg,omitempty"`
	Max *int64 `json:"max,omitempty"`
	Min *int64 `json:"min,omitempty"`
}

type ObsJ struct {
	Lat   []*WStatJ `json:"lat,omitempty"` // latency cases: per window, nil = nothing written
	Fed   bool      `json:"fed,omitempty"` // cache-latency cases: the call announced something
	Res   string    `json:"res"` // ok stale future other multi panic
	Multi []string  `json:"multi,omitempty"`
	Feed  []NotiJ   `json:"feed,omitempty"`
	Tgts  []TObsJ   `json:"tgts,omitempty"`
	Star  []PNJ     `json:"star,omitempty"`
	Subs  []SubObsJ `json:"subs,omitempty"`
	Msg   string    `json:"msg,omitempty"`
}

type CfgJ struct {
	Thr         int64    `json:"thr,omitempty"`
	EventDriven bool     `json:"ed"`
	Srv         string   `json:"srv,omitempty"`  // cache.WithServerName
	Excl        []string `json:"excl,omitempty"` // cache.WithExcludedMeta
}

type Case struct {
	Family  string   `json:"family"`
	Kind    string   `json:"kind,omitempty"`    // "" = cache history, "lat" = latency history, "clat", "conc"
	X       *Op      `json:"x,omitempty"`       // conc cases: the call parked at its announce point
	Y       []Op     `json:"y,omitempty"`       // conc cases: the calls made meanwhile on another goroutine
	Park    string   `json:"park,omitempty"`    // conc cases: "now" (inside cache.Now) or "cb" (inside the callback)
	ParkAt  int      `json:"parkat,omitempty"`  // conc cases: park at the k-th such call (0/1 = the first)
	CFeed   []NotiJ  `json:"cfeed,omitempty"`   // conc cases: the whole feed, in callback-entry order
	CFinal  []TObsJ  `json:"cfinal,omitempty"`  // conc cases: every name at the end
	CNote   string   `json:"cnote,omitempty"`   // conc cases: parked / blocked / hang
	Windows []int64  `json:"windows,omitempty"` // latency cases
	Prec    int64    `json:"prec,omitempty"`    // latency cases: AvgPrecision in ns
	Cfg     CfgJ     `json:"cfg"`
	Targets []string `json:"targets"`
	Ops     []Op     `json:"ops"`
	Init    []TObsJ  `json:"init,omitempty"`
	Obs     []ObsJ   `json:"obs,omitempty"`
}

var intNames = []string{metadata.AddCount, metadata.DelCount, metadata.EmptyCount, metadata.LeafCount,
	metadata.UpdateCount, metadata.StaleCount, metadata.FutureCount, metadata.SuppressedCount,
	metadata.Size, metadata.LatestTimestamp}
var boolNames = []string{metadata.Sync, metadata.Connected}
var strNames = []string{metadata.ConnectedAddr, metadata.ConnectError}

// ---------------------------------------------------------------------------
// protobuf construction / projection

func mkPath(p *PathJ) *pb.Path {
	if p == nil {
		return nil
	}
	out := &pb.Path{Target: p.Target, Origin: p.Origin}
	for _, e := range p.Elems {
		pe := &pb.PathElem{Name: e.Name}
		if len(e.Keys) > 0 {
			pe.Key = map[string]string{}
			for k, v := range e.Keys {
				pe.Key[k] = v
			}
		}
		out.Elem = append(out.Elem, pe)
	}
	if len(p.Element) > 0 {
		out.Element = append([]string{}, p.Element...)
	}
	return out
}

func mkVal(v *ValJ) *pb.TypedValue {
	if v == nil {
		return nil
	}
	switch v.K {
	case "str":
		return &pb.TypedValue{Value: &pb.TypedValue_StringVal{StringVal: v.S}}
	case "int":
		return &pb.TypedValue{Value: &pb.TypedValue_IntVal{IntVal: v.I}}
	case "uint":
		return &pb.TypedValue{Value: &pb.TypedValue_UintVal{UintVal: uint64(v.I)}}
	case "bool":
		return &pb.TypedValue{Value: &pb.TypedValue_BoolVal{BoolVal: v.B}}
	case "bytes":
		return &pb.TypedValue{Value: &pb.TypedValue_BytesVal{BytesVal: []byte(v.S)}}
	case "json":
		return &pb.TypedValue{Value: &pb.TypedValue_JsonVal{JsonVal: []byte(v.S)}}
	}
	return &pb.TypedValue{}
}

func mkNoti(n *NotiJ) *pb.Notification {
	out := &pb.Notification{Timestamp: n.TS, Atomic: n.Atomic, Prefix: mkPath(n.Prefix)}
	for i := range n.Upd {
		u := &n.Upd[i]
		out.Update = append(out.Update, &pb.Update{Path: mkPath(u.Path), Val: mkVal(u.Val), Duplicates: u.Dup})
	}
	for i := range n.Del {
		out.Delete = append(out.Delete, mkPath(&n.Del[i]))
	}
	return out
}

func projPath(p *pb.Path) *PathJ {
	if p == nil {
		return nil
	}
	out := &PathJ{Target: p.Target, Origin: p.Origin}
	for _, e := range p.Elem {
		ej := ElemJ{Name: e.GetName()}
		if len(e.GetKey()) > 0 {
			ej.Keys = map[string]string{}
			for k, v := range e.GetKey() {
				ej.Keys[k] = v
			}
		}
		out.Elems = append(out.Elems, ej)
	}
	if len(p.Element) > 0 {
		out.Element = append([]string{}, p.Element...)
	}
	return out
}

func projVal(v *pb.TypedValue) *ValJ {
	if v == nil {
		return nil
	}
	switch x := v.Value.(type) {
	case *pb.TypedValue_StringVal:
		return &ValJ{K: "str", S: x.StringVal}
	case *pb.TypedValue_IntVal:
		return &ValJ{K: "int", I: x.IntVal}
	case *pb.TypedValue_UintVal:
		return &ValJ{K: "uint", I: int64(x.UintVal)}
	case *pb.TypedValue_BoolVal:
		return &ValJ{K: "bool", B: x.BoolVal}
	case *pb.TypedValue_BytesVal:
		return &ValJ{K: "bytes", S: string(x.BytesVal)}
	case *pb.TypedValue_JsonVal:
		return &ValJ{K: "json", S: string(x.JsonVal)}
	case nil:
		return &ValJ{K: "none"}
	}
	return &ValJ{K: "json", S: fmt.Sprintf("%T", v.Value)}
}

func projNoti(n *pb.Notification) NotiJ {
	out := NotiJ{TS: n.GetTimestamp(), Atomic: n.GetAtomic(), Prefix: projPath(n.GetPrefix())}
	for _, u := range n.GetUpdate() {
		out.Upd = append(out.Upd, UpdJ{Path: projPath(u.GetPath()), Val: projVal(u.GetVal()), Dup: u.GetDuplicates()})
	}
	for _, d := range n.GetDelete() {
		pj := projPath(d)
		if pj == nil {
			pj = &PathJ{}
		}
		out.Del = append(out.Del, *pj)
	}
	return out
}

func classify(err error) (string, []string) {
	switch {
	case err == nil:
		return "ok", nil
	case err == cache.ErrStale:
		return "stale", nil
	case err == cache.ErrFuture:
		return "future", nil
	}
	if el, ok := err.(errlist.Errors); ok {
		var ms []string
		for _, e := range el.Errors() {
			c, _ := classify(e)
			ms = append(ms, c)
		}
		return "multi", ms
	}
	return "other", nil
}

// ---------------------------------------------------------------------------
// subscribers

type memStream struct {
	grpc.ServerStream
	ctx    context.Context
	cancel context.CancelFunc
	reqs   chan *pb.SubscribeRequest
	mu     sync.Mutex
	cur    []RespJ
	done   chan struct{}
	err    error
	pan    bool
}

func (s *memStream) Context() context.Context { return s.ctx }

func (s *memStream) Recv() (*pb.SubscribeRequest, error) {
	r, ok := <-s.reqs
	if !ok {
		return nil, io.EOF
	}
	return r, nil
}

// sendGate, when non-nil, blocks every Send until it is closed.
var sendGate chan struct{}
var sendGateMu sync.Mutex

func currentGate() chan struct{} {
	sendGateMu.Lock()
	defer sendGateMu.Unlock()
	return sendGate
}

func (s *memStream) Send(r *pb.SubscribeResponse) error {
	if g := currentGate(); g != nil {
		select {
		case <-g:
		case <-s.ctx.Done():
			return s.ctx.Err()
		}
	}
	var o RespJ
	switch v := r.GetResponse().(type) {
	case *pb.SubscribeResponse_SyncResponse:
		o = RespJ{Sync: true}
	case *pb.SubscribeResponse_Update:
		n := projNoti(v.Update)
		o = RespJ{N: &n}
	default:
		o = RespJ{N: &NotiJ{TS: -999}}
	}
	s.mu.Lock()
	s.cur = append(s.cur, o)
	s.mu.Unlock()
	return nil
}

func (s *memStream) take() []RespJ {
	s.mu.Lock()
	defer s.mu.Unlock()
	g := s.cur
	s.cur = nil
	return g
}

func (s *memStream) returned() bool {
	select {
	case <-s.done:
		return true
	default:
		return false
	}
}

func (s *memStream) stat() string {
	if !s.returned() {
		return "running"
	}
	switch {
	case s.pan:
		return "err"
	case s.err == nil:
		return "ok"
	case status.Code(s.err) == codes.NotFound:
		return "notfound"
	case s.err == context.Canceled || status.Code(s.err) == codes.Canceled:
		return "canceled"
	}
	return "err"
}

// quiescence is recognised from the goroutines' own states (runtime.Stack),
// never from a timeout: every goroutine with a frame of subscribe.(*Server) is
// parked, and exactly one sender per live RPC waits in coalesce.Queue.Next
// (queue empty: a pending token would have made it runnable).
type gstate struct {
	server        int
	blocked       int
	parkedSenders int
	gatedSenders  int // blocked in memStream.Send behind the gate
}

var stackBuf = make([]byte, 4<<20)

func goroutineStates() gstate {
	n := runtime.Stack(stackBuf, true)
	var g gstate
	for _, blk := range bytes.Split(stackBuf[:n], []byte("\n\n")) {
		nl := bytes.IndexByte(blk, '\n')
		if nl < 0 {
			continue
		}
		head, body := blk[:nl], blk[nl:]
		if !bytes.Contains(body, []byte("gnmi/subscribe.(*Server).")) {
			continue
		}
		g.server++
		st := ""
		if i := bytes.IndexByte(head, '['); i >= 0 {
			st = string(head[i+1:])
		}
		sel, rcv := strings.HasPrefix(st, "select"), strings.HasPrefix(st, "chan receive")
		if sel || rcv {
			g.blocked++
		}
		if sel && bytes.Contains(body, []byte("coalesce.(*Queue).Next(")) {
			g.parkedSenders++
		}
		if sel && bytes.Contains(body, []byte("(*memStream).Send(")) {
			g.gatedSenders++
		}
	}
	return g
}

func pause(i int) {
	if i < 50 {
		runtime.Gosched()
	} else {
		time.Sleep(20 * time.Microsecond)
	}
}

const watchdog = 5 * time.Second

func (r *runner) live() int {
	n := 0
	for _, s := range r.subs {
		if !s.returned() {
			n++
		}
	}
	return n
}

// settle waits until every subscriber is quiescent; false = watchdog expired.
func (r *runner) settle() bool {
	if len(r.subs) == 0 {
		return true
	}
	t0 := time.Now()
	for i := 0; ; i++ {
		live := r.live()
		g := goroutineStates()
		if live == 0 {
			if g.server == 0 {
				return true
			}
		} else if g.server == g.blocked && g.parkedSenders+g.gatedSenders == live {
			if r.live() == live {
				return true
			}
		}
		if i%64 == 63 && time.Since(t0) > watchdog {
			return false
		}
		pause(i)
	}
}

func (r *runner) attach(target string, updatesOnly bool, sp ...string) {
	ctx := peer.NewContext(context.Background(), &peer.Peer{Addr: &net.TCPAddr{IP: net.IPv4(127, 0, 0, 1), Port: 1 + len(r.subs)}})
	ctx, cancel := context.WithCancel(ctx)
	st := &memStream{ctx: ctx, cancel: cancel, reqs: make(chan *pb.SubscribeRequest, 2), done: make(chan struct{})}
	st.reqs <- &pb.SubscribeRequest{Request: &pb.SubscribeRequest_Subscribe{Subscribe: &pb.SubscriptionList{
		Prefix:       &pb.Path{Target: target},
		Mode:         pb.SubscriptionList_STREAM,
		UpdatesOnly:  updatesOnly,
		Subscription: []*pb.Subscription{{Path: mkPath(&PathJ{Elems: elems(sp...)})}},
	}}}
	r.subs = append(r.subs, st)
	go func() {
		defer close(st.done)
		defer func() {
			if p := recover(); p != nil {
				st.pan = true
			}
		}()
		st.err = r.srv.Subscribe(st)
	}()
}

func (r *runner) finish() {
	r.openGate()
	for _, s := range r.subs {
		s.cancel()
	}
	for _, s := range r.subs {
		select {
		case <-s.done:
		case <-time.After(watchdog):
		}
	}
	t0 := time.Now()
	for i := 0; goroutineStates().server != 0 && time.Since(t0) < watchdog; i++ {
		pause(i)
	}
}

func (r *runner) openGate() {
	sendGateMu.Lock()
	if sendGate != nil {
		close(sendGate)
		sendGate = nil
	}
	sendGateMu.Unlock()
}

// ---------------------------------------------------------------------------
// running a case against the real cache

type runner struct {
	pending func() // run once at the next process:before-walk hook
	c     *cache.Cache
	srv   *subscribe.Server
	feed  []NotiJ
	names []string
	subs  []*memStream
	hung  bool
}

// sortPN orders query results by (target of the notification, index path).
func sortPN(out []PNJ) {
	tg := func(i int) string {
		if out[i].N.Prefix != nil {
			return out[i].N.Prefix.Target
		}
		return ""
	}
	sort.SliceStable(out, func(i, j int) bool {
		if tg(i) != tg(j) {
			return tg(i) < tg(j)
		}
		return strings.Join(out[i].Path, "\x00") < strings.Join(out[j].Path, "\x00")
	})
}

func (r *runner) query(t string) ([]PNJ, bool) {
	var out []PNJ
	err := r.c.Query(t, []string{"*"}, func(path []string, _ *ctree.Leaf, v interface{}) error {
		n, ok := v.(*pb.Notification)
		if !ok {
			panic(fmt.Sprintf("query visited a %T", v))
		}
		out = append(out, PNJ{Path: append([]string{}, path...), N: projNoti(n)})
		return nil
	})
	sortPN(out)
	return out, err == nil
}

func (r *runner) observe() []TObsJ {
	md := r.c.Metadata()
	out := make([]TObsJ, 0, len(r.names))
	for _, nm := range r.names {
		o := TObsJ{Name: nm, Has: r.c.HasTarget(nm)}
		o.Dump, o.HasDump = r.query(nm)
		if m := md[nm]; m != nil {
			mj := &MetaJ{}
			for _, k := range intNames {
				if v, err := m.GetInt(k); err == nil {
					v := v
					mj.Ints = append(mj.Ints, &v)
				} else {
					mj.Ints = append(mj.Ints, nil)
				}
			}
			for _, k := range boolNames {
				if v, err := m.GetBool(k); err == nil {
					v := v
					mj.Bools = append(mj.Bools, &v)
				} else {
					mj.Bools = append(mj.Bools, nil)
				}
			}
			for _, k := range strNames {
				if v, err := m.GetStr(k); err == nil {
					v := v
					mj.Strs = append(mj.Strs, &v)
				} else {
					mj.Strs = append(mj.Strs, nil)
				}
			}
			if v, err := m.GetStr(metadata.ServerName); err == nil {
				v := v
				mj.Srv = &v
			}
			o.Meta = mj
		}
		out = append(out, o)
	}
	return out
}

// sizes: what UpdateSize is expected to store, computed here independently of
// cache.updateSize (own Query, own json.Marshal).
func (r *runner) sizes() map[string]int64 {
	out := map[string]int64{}
	for _, nm := range r.names {
		if !r.c.HasTarget(nm) {
			continue
		}
		var s int64
		r.c.Query(nm, []string{"*"}, func(_ []string, _ *ctree.Leaf, v interface{}) error {
			if b, err := json.Marshal(v); err == nil {
				s += int64(len(b))
			}
			return nil
		})
		out[nm] = s
	}
	return out
}

func (r *runner) apply(o *Op) (res ObsJ) {
	r.feed = nil
	now := o.Now
	cache.Now = func() time.Time { return time.Unix(0, now) }
	if o.K == "updatesize" {
		o.Sizes = r.sizes()
	}
	done := make(chan ObsJ, 1)
	go func() {
		var ob ObsJ
		defer func() {
			if p := recover(); p != nil {
				ob = ObsJ{Res: "panic", Msg: fmt.Sprint(p)}
			}
			done <- ob
		}()
		ob.Res = "ok"
		switch o.K {
		case "upd":
			err := r.c.GnmiUpdate(mkNoti(o.N))
			ob.Res, ob.Multi = classify(err)
		case "reset":
			r.c.Reset(o.Tgt)
		case "remove":
			r.c.Remove(o.Tgt)
		case "add":
			r.c.Add(o.Tgt)
		case "sync":
			r.c.Sync(o.Tgt)
		case "connect":
			r.c.Connect(o.Tgt)
		case "connecterror":
			r.c.ConnectError(o.Tgt, fmt.Errorf("%s", o.Msg))
		case "updatemeta":
			r.c.UpdateMetadata()
		case "updatesize":
			r.c.UpdateSize()
		case "sub":
			r.attach(o.Tgt, true)
		case "subp":
			r.attach(o.Tgt, true, o.SP...)
		case "unsub":
			if o.Idx < len(r.subs) {
				r.subs[o.Idx].cancel()
			}
		case "gate":
			sendGateMu.Lock()
			if sendGate == nil {
				sendGate = make(chan struct{})
			}
			sendGateMu.Unlock()
		case "ungate":
			r.openGate()
		case "subwalk":
			if o.Rm != "" {
				rm := o.Rm
				r.pending = func() { r.c.Remove(rm) }
			}
			r.attach(o.Tgt, false)
		default:
			panic("unknown op " + o.K)
		}
	}()
	select {
	case res = <-done:
	case <-time.After(20 * time.Second):
		res = ObsJ{Res: "panic", Msg: "hang"}
	}
	if !r.hung && !r.settle() {
		r.hung = true
	}
	r.pending = nil // Subscribe returned before the walk (unknown target)
	res.Feed = r.feed
	r.feed = nil
	func() {
		defer func() {
			if p := recover(); p != nil {
				res.Msg += " observe panicked: " + fmt.Sprint(p)
			}
		}()
		res.Tgts = r.observe()
		res.Star, _ = r.query("*")
	}()
	for _, s := range r.subs {
		so := SubObsJ{Resp: s.take(), Stat: s.stat()}
		if r.hung {
			so.Stat = "err"
		}
		res.Subs = append(res.Subs, so)
	}
	return res
}

func caseNames(c *Case) []string {
	seen := map[string]bool{}
	var out []string
	add := func(s string) {
		if s == "" || s == "*" || seen[s] {
			return
		}
		seen[s] = true
		out = append(out, s)
	}
	for _, t := range c.Targets {
		add(t)
	}
	for _, o := range c.Ops {
		add(o.Tgt)
		add(o.Rm)
		if o.N != nil && o.N.Prefix != nil {
			add(o.N.Prefix.Target)
		}
	}
	sort.Strings(out)
	return out
}

func runCase(c *Case) {
	var opts []cache.Option
	if c.Cfg.Thr != 0 {
		opts = append(opts, cache.WithFutureThreshold(time.Duration(c.Cfg.Thr)))
	}
	if !c.Cfg.EventDriven {
		opts = append(opts, cache.DisableEventDrivenEmulation())
	}
	if c.Cfg.Srv != "" {
		opts = append(opts, cache.WithServerName(c.Cfg.Srv))
		// the registration of serverName is global: undo it after the case
		defer metadata.UnregisterServerNameMetadata()
	}
	if len(c.Cfg.Excl) > 0 {
		opts = append(opts, cache.WithExcludedMeta(c.Cfg.Excl))
	}
	r := &runner{names: caseNames(c)}
	cache.Now = func() time.Time { return time.Unix(0, 0) }
	r.c = cache.New(c.Targets, opts...)
	r.srv, _ = subscribe.NewServer(r.c)
	subscribe.VerifHook = func(p string) {
		if p == "process:before-walk" {
			if f := r.pending; f != nil {
				r.pending = nil
				f()
			}
		}
	}
	defer func() { subscribe.VerifHook = nil }()
	r.c.SetClient(func(l *ctree.Leaf) {
		n, ok := l.Value().(*pb.Notification)
		if !ok {
			panic(fmt.Sprintf("callback got a %T", l.Value()))
		}
		r.feed = append(r.feed, projNoti(n))
		r.srv.Update(l)
	})
	c.Init = r.observe()
	c.Obs = make([]ObsJ, len(c.Ops))
	for i := range c.Ops {
		c.Obs[i] = r.apply(&c.Ops[i])
	}
	r.finish()
}

// ---------------------------------------------------------------------------
// Gallina

type termer struct {
	n    *vh.Names
	dids map[string]string
	cnt  map[string]int
	lets []string
}

func newTermer() *termer {
	return &termer{n: vh.NewNames(), dids: map[string]string{}, cnt: map[string]int{}}
}

// intern binds term to a file-level definition <pfx><k> : <typ>.
func (t *termer) intern(pfx, typ, term string) string {
	key := pfx + "|" + term
	if id, ok := t.dids[key]; ok {
		return id
	}
	id := fmt.Sprintf("%s%d", pfx, t.cnt[pfx])
	t.cnt[pfx]++
	t.dids[key] = id
	t.lets = append(t.lets, fmt.Sprintf("Definition %s : %s := %s.\n", id, typ, term))
	return id
}

func (t *termer) str(s string) string { return t.n.Ref(s) }

func (t *termer) path(p *PathJ) string {
	if p == nil {
		return "None"
	}
	return "(Some " + t.gpath(p) + ")"
}

func (t *termer) gpath(p *PathJ) string {
	els := make([]string, len(p.Elems))
	for i, e := range p.Elems {
		names := make([]string, 0, len(e.Keys))
		for k := range e.Keys {
			names = append(names, k)
		}
		sort.Strings(names)
		ks := make([]string, 0, len(e.Keys))
		for _, k := range names {
			ks = append(ks, fmt.Sprintf("(%s, %s)", t.str(k), t.str(e.Keys[k])))
		}
		els[i] = fmt.Sprintf("(%s, %s)", t.str(e.Name), vh.List(ks))
	}
	el := make([]string, len(p.Element))
	for i, s := range p.Element {
		el[i] = t.str(s)
	}
	return t.intern("g", "gpath", fmt.Sprintf("GPath %s %s %s %s", t.str(p.Target), t.str(p.Origin), vh.List(els), vh.List(el)))
}

func (t *termer) val(v *ValJ) string {
	if v == nil {
		return "None"
	}
	switch v.K {
	case "str":
		return "(Some (TStr " + t.str(v.S) + "))"
	case "int":
		return "(Some (TInt " + zlit(v.I) + "))"
	case "uint":
		return fmt.Sprintf("(Some (TUint %d%%N))", uint64(v.I))
	case "bool":
		return "(Some (TBool " + vh.Bool(v.B) + "))"
	case "bytes":
		return "(Some (TBytes " + t.str(v.S) + "))"
	case "json":
		return "(Some (TJson " + t.str(v.S) + "))"
	}
	return "(Some TNone)"
}

func zlit(v int64) string {
	if v >= 0 {
		return fmt.Sprintf("%d", v)
	}
	return fmt.Sprintf("(%d)", v)
}

func (t *termer) tv(v *ValJ) string {
	s := t.val(v)
	return s[len("(Some ") : len(s)-1]
}

func (t *termer) noti(n *NotiJ) string {
	if !n.Atomic && n.Prefix != nil && len(n.Upd) == 1 && len(n.Del) == 0 && n.Upd[0].Path != nil && n.Upd[0].Val != nil && n.Upd[0].Dup == 0 {
		return t.intern("n", "notif", fmt.Sprintf("NU %s %s %s %s", zlit(n.TS), t.gpath(n.Prefix), t.gpath(n.Upd[0].Path), t.tv(n.Upd[0].Val)))
	}
	if !n.Atomic && n.Prefix != nil && len(n.Upd) == 0 && len(n.Del) == 1 {
		return t.intern("n", "notif", fmt.Sprintf("ND %s %s %s", zlit(n.TS), t.gpath(n.Prefix), t.gpath(&n.Del[0])))
	}
	us := make([]string, len(n.Upd))
	for i := range n.Upd {
		u := &n.Upd[i]
		us[i] = fmt.Sprintf("Upd %s %s %s", t.path(u.Path), t.val(u.Val), zlit(int64(u.Dup)))
	}
	ds := make([]string, len(n.Del))
	for i := range n.Del {
		ds[i] = t.gpath(&n.Del[i])
	}
	return t.intern("n", "notif", fmt.Sprintf("Notif %s %s None %s %s %s", zlit(n.TS), t.path(n.Prefix), vh.List(us), vh.List(ds), vh.Bool(n.Atomic)))
}

func (t *termer) res(o *ObsJ) string {
	cls := func(s string) string {
		switch s {
		case "ok":
			return "ROk"
		case "stale":
			return "RStale"
		case "future":
			return "RFuture"
		case "panic":
			return "RPanic"
		}
		return "ROther"
	}
	if o.Res == "multi" {
		el := make([]string, len(o.Multi))
		for i, m := range o.Multi {
			el[i] = cls(m)
		}
		return "(RMulti " + vh.List(el) + ")"
	}
	return cls(o.Res)
}

func (t *termer) op(o *Op, names []string) string {
	switch o.K {
	case "upd":
		return fmt.Sprintf("MUpd %s %s", zlit(o.Now), t.noti(o.N))
	case "reset":
		return fmt.Sprintf("MReset %s %s", vh.Z(o.Now), t.str(o.Tgt))
	case "remove":
		return fmt.Sprintf("MRemove %s %s", vh.Z(o.Now), t.str(o.Tgt))
	case "add":
		return "MAdd " + t.str(o.Tgt)
	case "sync":
		return fmt.Sprintf("MSync %s %s", vh.Z(o.Now), t.str(o.Tgt))
	case "connect":
		return fmt.Sprintf("MConnect %s %s", vh.Z(o.Now), t.str(o.Tgt))
	case "connecterror":
		return fmt.Sprintf("MConnectError %s %s %s", vh.Z(o.Now), t.str(o.Tgt), t.str(o.Msg))
	case "updatemeta":
		return "MUpdateMeta " + vh.Z(o.Now)
	case "updatesize":
		var el []string
		for _, nm := range names {
			if v, ok := o.Sizes[nm]; ok {
				el = append(el, fmt.Sprintf("(%s, %s)", t.str(nm), vh.Z(v)))
			}
		}
		return "MUpdateSize " + vh.List(el)
	case "sub":
		return "MSub " + t.str(o.Tgt)
	case "subp":
		return fmt.Sprintf("MSubP %s %s", t.str(o.Tgt), t.n.Path(o.SP))
	case "unsub":
		return fmt.Sprintf("MUnsub %d%%nat", o.Idx)
	case "gate":
		return "MGate"
	case "ungate":
		return "MUngate"
	case "subwalk":
		rm := "None"
		if o.Rm != "" {
			rm = "(Some " + t.str(o.Rm) + ")"
		}
		return fmt.Sprintf("MSubWalk %s %s %s", zlit(o.Now), t.str(o.Tgt), rm)
	}
	panic("op")
}

func (t *termer) pns(l []PNJ) string {
	if len(l) == 0 {
		return "[]"
	}
	el := make([]string, len(l))
	for i := range l {
		el[i] = fmt.Sprintf("PN %s %s", t.intern("p", "path", t.n.Path(l[i].Path)), t.noti(&l[i].N))
	}
	return t.intern("d", "list (path * notif)", vh.List(el))
}

func optZ(p *int64) string {
	if p == nil {
		return "None"
	}
	return "(Some " + zlit(*p) + ")"
}

func (t *termer) meta(m *MetaJ) string {
	if m == nil {
		return "None"
	}
	is := make([]string, len(m.Ints))
	for i, p := range m.Ints {
		is[i] = optZ(p)
	}
	bs := make([]string, len(m.Bools))
	for i, p := range m.Bools {
		if p == nil {
			bs[i] = "None"
		} else {
			bs[i] = "(Some " + vh.Bool(*p) + ")"
		}
	}
	ss := make([]string, len(m.Strs))
	for i, p := range m.Strs {
		if p == nil {
			ss[i] = "None"
		} else {
			ss[i] = "(Some " + t.str(*p) + ")"
		}
	}
	srv := "None"
	if m.Srv != nil {
		srv = "(Some " + t.str(*m.Srv) + ")"
	}
	return "(Some " + t.intern("m", "metaobs", fmt.Sprintf("MO %s %s %s %s", vh.List(is), vh.List(bs), vh.List(ss), srv)) + ")"
}

func (t *termer) tobs(l []TObsJ) string {
	el := make([]string, len(l))
	for i := range l {
		o := &l[i]
		switch {
		case o.Has && o.HasDump && o.Meta != nil:
			m := t.meta(o.Meta)
			el[i] = fmt.Sprintf("TGS %s %s %s", t.str(o.Name), t.pns(o.Dump), m[len("(Some "):len(m)-1])
		case !o.Has && !o.HasDump && o.Meta == nil:
			el[i] = "TGN " + t.str(o.Name)
		default:
			dump := "None"
			if o.HasDump {
				dump = "(Some " + t.pns(o.Dump) + ")"
			}
			el[i] = fmt.Sprintf("TG %s (TObs %s %s %s)", t.str(o.Name), vh.Bool(o.Has), dump, t.meta(o.Meta))
		}
	}
	return t.intern("T", "list (string * tobs)", vh.List(el))
}

func (t *termer) subs(l []SubObsJ) string {
	el := make([]string, len(l))
	for i := range l {
		rs := make([]string, len(l[i].Resp))
		for j, r := range l[i].Resp {
			if r.Sync {
				rs[j] = "SSync"
			} else {
				rs[j] = "SUpd " + t.noti(r.N)
			}
		}
		st := map[string]string{"running": "SRunning", "ok": "SEndedOk", "notfound": "SNotFound", "canceled": "SCanceled"}[l[i].Stat]
		if st == "" {
			st = "SEndedErr"
		}
		el[i] = fmt.Sprintf("SG %s %s", vh.List(rs), st)
	}
	return vh.List(el)
}

func caseTerm(t *termer, c *Case) string {
	names := caseNames(c)
	steps := make([]string, len(c.Ops))
	for i := range c.Ops {
		ob := &c.Obs[i]
		feed := make([]string, len(ob.Feed))
		for j := range ob.Feed {
			feed[j] = t.noti(&ob.Feed[j])
		}
		steps[i] = fmt.Sprintf("STEP (%s) %s %s %s %s %s", t.op(&c.Ops[i], names), t.res(ob), vh.List(feed),
			t.tobs(ob.Tgts), t.pns(ob.Star), t.subs(ob.Subs))
	}
	tg := make([]string, len(c.Targets))
	for i, s := range c.Targets {
		tg[i] = t.str(s)
	}
	ex := make([]string, len(c.Cfg.Excl))
	for i, s := range c.Cfg.Excl {
		ex[i] = t.str(s)
	}
	return fmt.Sprintf("(Cfg %s %s %s, %s, %s, %s)", vh.Z(c.Cfg.Thr), vh.Bool(c.Cfg.EventDriven), vh.List(ex), vh.List(tg), t.tobs(c.Init), vh.List(steps))
}

// ---------------------------------------------------------------------------
// small constructors used by the generators

func elems(names ...string) []ElemJ {
	out := make([]ElemJ, len(names))
	for i, n := range names {
		out[i] = ElemJ{Name: n}
	}
	return out
}

func pfx(target string, names ...string) *PathJ { return &PathJ{Target: target, Elems: elems(names...)} }
func pth(names ...string) *PathJ                { return &PathJ{Elems: elems(names...)} }
func ival(i int64) *ValJ                        { return &ValJ{K: "int", I: i} }
func sval(s string) *ValJ                       { return &ValJ{K: "str", S: s} }
func bval(b bool) *ValJ                         { return &ValJ{K: "bool", B: b} }

func updN(ts int64, prefix *PathJ, p *PathJ, v *ValJ) *NotiJ {
	return &NotiJ{TS: ts, Prefix: prefix, Upd: []UpdJ{{Path: p, Val: v}}}
}

func delN(ts int64, prefix *PathJ, p *PathJ) *NotiJ {
	return &NotiJ{TS: ts, Prefix: prefix, Del: []PathJ{*p}}
}

// ---------------------------------------------------------------------------
// emitter

type caseFile struct {
	t     *termer
	terms []string
	descs []json.RawMessage
}

func newCaseFile() *caseFile { return &caseFile{t: newTermer()} }

func (c *caseFile) Len() int { return len(c.terms) }

func (c *caseFile) add(cs *Case) {
	c.terms = append(c.terms, wrapCase(c.t, cs, caseTerm(c.t, cs)))
	b, err := json.Marshal(cs)
	if err != nil {
		panic(err)
	}
	c.descs = append(c.descs, b)
}

// addRaw appends a case whose term was rendered by the caller.
func (c *caseFile) addRaw(term string, desc interface{}) {
	c.terms = append(c.terms, term)
	b, err := json.Marshal(desc)
	if err != nil {
		panic(err)
	}
	c.descs = append(c.descs, b)
}

func (c *caseFile) write(dir string, k int, require, caseType, checkFn string) error {
	var b strings.Builder
	fmt.Fprintf(&b, "From Gnmi Require Import Base.Prelude %s.\nOpen Scope Z_scope.\n", require)
	b.WriteString(c.t.n.Decls())
	for _, d := range c.t.lets {
		b.WriteString(d)
	}
	refs := make([]string, len(c.terms))
	for i, t := range c.terms {
		fmt.Fprintf(&b, "Definition c%d : %s := %s.\n", i, caseType, t)
		refs[i] = fmt.Sprintf("c%d", i)
	}
	fmt.Fprintf(&b, "Definition cases : list %s := %s.\n", caseType, vh.List(refs))
	fmt.Fprintf(&b, "Definition R := Eval vm_compute in %s cases.\nPrint R.\n", checkFn)
	if err := os.WriteFile(fmt.Sprintf("%s/cases_%d.v", dir, k), []byte(b.String()), 0o644); err != nil {
		return err
	}
	js, err := json.Marshal(c.descs)
	if err != nil {
		return err
	}
	return os.WriteFile(fmt.Sprintf("%s/cases_%d.json", dir, k), js, 0o644)
}

type emitter struct {
	dir   string
	shard int
	cf    *caseFile
	meta  *vh.Meta
	limit int
}

func (e *emitter) add(c *Case) {
	if c.Kind == "lat" {
		addLatCase(e, c)
		return
	}
	if c.Kind == "clat" {
		addClatCase(e, c)
		return
	}
	if c.Kind == "conc" {
		addConcCase(e, c)
		return
	}
	runCase(c)
	e.cf.add(c)
	nontrivial := false
	for i, o := range c.Ops {
		e.meta.Hist("op:" + o.K)
		ob := &c.Obs[i]
		e.meta.Hist("res:" + ob.Res)
		if nontrivialStep(c, i) {
			nontrivial = true
		}
	}
	e.meta.Hist(fmt.Sprintf("targets:%d", len(caseNames(c))))
	e.meta.Hist(fmt.Sprintf("len:%02d", (len(c.Ops)/5)*5))
	cj, _ := json.Marshal(struct {
		C CfgJ
		T []string
		O []Op
	}{c.Cfg, c.Targets, c.Ops})
	e.meta.Count(c.Family, string(cj), nontrivial, map[string]interface{}{"family": c.Family, "cfg": c.Cfg, "targets": c.Targets, "ops": c.Ops})
	if e.cf.Len() >= e.limit {
		e.flush()
	}
}

func (e *emitter) flush() {
	if e.cf.Len() == 0 {
		return
	}
	if err := e.cf.write(e.dir, e.shard, requireLibs, caseTypeName, checkFnName); err != nil {
		vh.Die("write: %v", err)
	}
	e.shard++
	e.cf = newCaseFile()
}

func readCases(file string) []Case {
	b, err := os.ReadFile(file)
	if err != nil {
		vh.Die("read %s: %v", file, err)
	}
	var cs []Case
	if err := json.Unmarshal(b, &cs); err != nil {
		var one Case
		if err2 := json.Unmarshal(b, &one); err2 != nil {
			vh.Die("%s unreadable: %v", file, err)
		}
		cs = []Case{one}
	}
	return cs
}

func quietLogs() {
	flag.Set("logtostderr", "true")
	flag.Set("stderrthreshold", "FATAL")
	if f, err := os.OpenFile(os.DevNull, os.O_WRONLY, 0); err == nil {
		os.Stderr = f
	}
}

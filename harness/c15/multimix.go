// Multi-update notifications mixing accepted and refused units in every
// order, followed by UpdateMetadata: latest_is_max must follow the accepted
// units whatever the position of the refused ones.
package main

import "github.com/openconfig/gnmi/zz_verif/vh"

// refusal kinds of one unit inside the multi notification (given the setup of
// multiMixCase): collision (below the leaf a/b), invalid (empty index path),
// future (existing leaf, threshold 50), stale (leaf a/c holds a newer value).
var refusalKinds = []string{"collision", "invalid", "future", "stale"}

func multiMixCase(kind string, shape []bool, T int64, edOn bool, extra int) *Case {
	c := &Case{Family: "multi-mix", Targets: []string{"t"}, Cfg: CfgJ{EventDriven: edOn}}
	if kind == "future" {
		c.Cfg.Thr = 50
	}
	// setup: a/b @100, a/c @5000 (latest = 5000), exported once
	c.Ops = append(c.Ops,
		Op{K: "upd", Now: 10, N: updN(100, pfx("t", "a"), pth("b"), ival(1))},
		Op{K: "upd", Now: 11, N: updN(5000, pfx("t", "a"), pth("c"), ival(1))},
		Op{K: "updatemeta", Now: 12})
	n := &NotiJ{TS: T, Prefix: &PathJ{Target: "t"}}
	fresh := 0
	for _, ok := range shape {
		if ok {
			// accepted: a new leaf (always accepted, also with a threshold)
			fresh++
			n.Upd = append(n.Upd, UpdJ{Path: pth("n", []string{"p", "q", "r"}[(fresh+extra)%3], []string{"x", "y", "z"}[fresh%3]), Val: ival(int64(fresh))})
			continue
		}
		switch kind {
		case "collision":
			n.Upd = append(n.Upd, UpdJ{Path: pth("a", "b", "x"), Val: ival(9)})
		case "invalid":
			n.Upd = append(n.Upd, UpdJ{Path: &PathJ{}, Val: ival(9)})
		case "future":
			n.Upd = append(n.Upd, UpdJ{Path: pth("a", "b"), Val: ival(9)})
		default: // stale
			n.Upd = append(n.Upd, UpdJ{Path: pth("a", "c"), Val: ival(9)})
		}
	}
	c.Ops = append(c.Ops, Op{K: "upd", Now: 20, N: n}, Op{K: "updatemeta", Now: 21})
	return c
}

// atomicRefusedCase: an atomic group newer than the latest timestamp that is
// refused as a whole (schema collision below the leaf a/b; ErrFuture on the
// stored group at g with a threshold): the latest timestamp must not move.
func atomicRefusedCase(kind string, T int64) *Case {
	c := &Case{Family: "multi-mix", Targets: []string{"t"}, Cfg: CfgJ{EventDriven: true}}
	if kind == "future" {
		c.Cfg.Thr = 50
	}
	grp := func(ts int64, at ...string) *NotiJ {
		return &NotiJ{TS: ts, Prefix: pfx("t", at...), Atomic: true, Upd: []UpdJ{{Path: pth("x"), Val: ival(ts)}, {Path: pth("y"), Val: ival(2)}}}
	}
	c.Ops = append(c.Ops,
		Op{K: "upd", Now: 10, N: updN(100, pfx("t", "a"), pth("b"), ival(1))},
		Op{K: "upd", Now: 11, N: grp(5000, "g")},
		Op{K: "updatemeta", Now: 12})
	if kind == "collision" {
		c.Ops = append(c.Ops, Op{K: "upd", Now: 20, N: grp(T, "a", "b", "z")})
	} else {
		c.Ops = append(c.Ops, Op{K: "upd", Now: 20, N: grp(T, "g")})
	}
	c.Ops = append(c.Ops, Op{K: "updatemeta", Now: 21})
	return c
}

func shapes(n int) [][]bool {
	var out [][]bool
	for m := 1; m < (1<<n)-1; m++ { // at least one accepted and one refused unit
		s := make([]bool, n)
		for i := range s {
			s[i] = m&(1<<i) != 0
		}
		out = append(out, s)
	}
	return out
}

func generateMultiMix(e *emitter, o vh.Opts) {
	for _, kind := range []string{"collision", "future"} {
		for _, T := range []int64{5051, 6000, 9000} {
			e.add(atomicRefusedCase(kind, T))
		}
	}
	for _, kind := range refusalKinds {
		for _, n := range []int{2, 3} {
			for _, sh := range shapes(n) {
				if kind == "invalid" && !sh[0] {
					// the code decides on the FIRST update whether the notification is
					// tracked at all; an unclassifiable first path is kept out (docs)
					continue
				}
				Ts := []int64{6000}
				if kind == "stale" {
					Ts = []int64{4000} // stale needs T below the stored 5000: latest must then stay
				}
				if o.Thorough() {
					Ts = append(Ts, Ts[0]+1000)
				}
				for _, T := range Ts {
					for _, ed := range []bool{true, false} {
						e.add(multiMixCase(kind, sh, T, ed, n))
					}
				}
			}
		}
	}
}

// Round 7, family "multi-first": multi notifications newer than the latest
// timestamp (5000) whose FIRST update is a metadata leaf / an empty index path /
// a refused unit (collision) / an accepted new leaf, followed by 1..2 further
// units (accepted new leaf, metadata leaf, refused), optionally with a delete
// that removes a leaf (a/b), removes nothing (z/z) or is the only other unit;
// then UpdateMetadata.  The code decides on the first update whether the
// notification is tracked, and on the UPDATE units alone (deletes never
// count, and never return an error) whether it is accepted.
func multiFirstCase(first string, rest []string, del string, T int64, edOn bool) *Case {
	c := &Case{Family: "multi-first", Targets: []string{"t"}, Cfg: CfgJ{EventDriven: edOn}}
	c.Ops = append(c.Ops,
		Op{K: "upd", Now: 10, N: updN(100, pfx("t", "a"), pth("b"), ival(1))},
		Op{K: "upd", Now: 11, N: updN(5000, pfx("t", "a"), pth("c"), ival(1))},
		Op{K: "updatemeta", Now: 12})
	n := &NotiJ{TS: T, Prefix: &PathJ{Target: "t"}}
	fresh := 0
	unit := func(kind string) UpdJ {
		fresh++
		switch kind {
		case "meta":
			return UpdJ{Path: pth("meta", []string{"vx", "vy", "vz"}[fresh%3]), Val: ival(int64(fresh))}
		case "empty":
			return UpdJ{Path: &PathJ{}, Val: ival(9)}
		case "collision":
			return UpdJ{Path: pth("a", "c", "x"), Val: ival(9)}
		default: // "new": always accepted
			return UpdJ{Path: pth("n", []string{"p", "q", "r"}[fresh%3], []string{"x", "y", "z"}[fresh%3]), Val: ival(int64(fresh))}
		}
	}
	n.Upd = append(n.Upd, unit(first))
	for _, k := range rest {
		n.Upd = append(n.Upd, unit(k))
	}
	switch del {
	case "hit":
		n.Del = append(n.Del, *pth("a", "b"))
	case "miss":
		n.Del = append(n.Del, *pth("z", "z"))
	}
	c.Ops = append(c.Ops, Op{K: "upd", Now: 20, N: n}, Op{K: "updatemeta", Now: 21})
	return c
}

func generateMultiFirst(e *emitter, o vh.Opts) {
	firsts := []string{"meta", "empty", "collision", "new"}
	rests := [][]string{{}, {"new"}, {"meta"}, {"collision"}, {"new", "meta"}, {"collision", "new"}, {"meta", "collision"}}
	for _, f := range firsts {
		for _, r := range rests {
			for _, d := range []string{"", "hit", "miss"} {
				if len(r) == 0 && d == "" {
					continue // a single update: not a multi notification
				}
				for _, ed := range []bool{true, false} {
					e.add(multiFirstCase(f, r, d, 6000, ed))
				}
			}
		}
	}
}

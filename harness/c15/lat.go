// Latency histories: Compute / UpdateReset / UpdateLast on one real
// latency.Latency under a fixed clock (latency.Now is overridden per call); the
// stats each update writes are read from a recording latency.Metadata.
package main

import (
	"encoding/json"
	"fmt"
	"time"

	"github.com/openconfig/gnmi/latency"
	"github.com/openconfig/gnmi/zz_verif/vh"
)

type recMeta map[string]int64

func (m recMeta) SetInt(name string, v int64) error { m[name] = v; return nil }

func runLat(c *Case) {
	ws := make([]time.Duration, len(c.Windows))
	for i, w := range c.Windows {
		ws[i] = time.Duration(w)
	}
	var opts *latency.Options
	if c.Prec != 0 {
		opts = &latency.Options{AvgPrecision: time.Duration(c.Prec)}
	}
	l := latency.New(ws, opts)
	c.Obs = make([]ObsJ, len(c.Ops))
	for i, o := range c.Ops {
		now := o.Now
		latency.Now = func() time.Time { return time.Unix(0, now) }
		ob := ObsJ{Res: "ok"}
		func() {
			defer func() {
				if p := recover(); p != nil {
					ob = ObsJ{Res: "panic", Msg: fmt.Sprint(p)}
				}
			}()
			switch o.K {
			case "compute":
				l.Compute(time.Unix(0, o.TS))
			case "update", "last":
				m := recMeta{}
				if o.K == "update" {
					l.UpdateReset(m)
				} else {
					l.UpdateLast(m)
				}
				for _, w := range ws {
					st := &WStatJ{}
					any := false
					for _, typ := range []latency.StatType{latency.Avg, latency.Max, latency.Min} {
						if v, ok := m[latency.MetadataName(w, typ)]; ok {
							v := v
							any = true
							switch typ {
							case latency.Avg:
								st.Avg = &v
							case latency.Max:
								st.Max = &v
							default:
								st.Min = &v
							}
						}
					}
					// "nothing written" is indistinguishable from "returned early"
					// through the Metadata interface; both are reported as all-unset
					_ = any
					ob.Lat = append(ob.Lat, st)
				}
			default:
				panic("unknown latency op " + o.K)
			}
		}()
		c.Obs[i] = ob
	}
}

func oz(p *int64) string {
	if p == nil {
		return "None"
	}
	return "(Some " + zlit(*p) + ")"
}

func latTerm(c *Case) string {
	steps := make([]string, len(c.Ops))
	for i, o := range c.Ops {
		var op string
		switch o.K {
		case "compute":
			op = fmt.Sprintf("LCompute %s %s", zlit(o.Now), zlit(o.TS))
		case "update":
			op = "LUpdate " + zlit(o.Now)
		default:
			op = "LUpdateLast " + zlit(o.Now)
		}
		obs := make([]string, len(c.Obs[i].Lat))
		for j, st := range c.Obs[i].Lat {
			obs[j] = fmt.Sprintf("WSo %s %s %s", oz(st.Avg), oz(st.Max), oz(st.Min))
		}
		steps[i] = fmt.Sprintf("LSTEP (%s) %s", op, vh.List(obs))
	}
	ws := make([]string, len(c.Windows))
	for i, w := range c.Windows {
		ws[i] = zlit(w)
	}
	return fmt.Sprintf("CLat (%s, %s, %s)", vh.List(ws), zlit(c.Prec), vh.List(steps))
}

func addLatCase(e *emitter, c *Case) {
	runLat(c)
	e.cf.addRaw(latTerm(c), c)
	nontrivial := false
	for i, o := range c.Ops {
		e.meta.Hist("latop:" + o.K)
		for _, st := range c.Obs[i].Lat {
			if st != nil && (st.Avg != nil || st.Max != nil || st.Min != nil) {
				nontrivial = true
			}
		}
	}
	cj, _ := json.Marshal(struct {
		W []int64
		P int64
		O []Op
	}{c.Windows, c.Prec, c.Ops})
	e.meta.Count(c.Family, string(cj), nontrivial, map[string]interface{}{"family": c.Family, "kind": "lat", "windows": c.Windows, "prec": c.Prec, "ops": c.Ops})
	if e.cf.Len() >= e.limit {
		e.flush()
	}
}

// ---------------------------------------------------------------------------
// generator

var latSamples = []int64{0, 1, 5, 7, 999, 1000, 1001, 2500, -3, -1500, 40, 12345}

func latCase(r *vh.Rand) *Case {
	period := []int64{10, 1000}[r.Intn(2)]
	c := &Case{Family: "latency", Kind: "lat", Prec: []int64{0, 1, 1000}[r.Intn(3)]}
	switch r.Intn(3) {
	case 0:
		c.Windows = []int64{2 * period}
	case 1:
		c.Windows = []int64{2 * period, 4 * period}
	default:
		c.Windows = []int64{4 * period}
	}
	now := int64(1000000)
	n := 4 + r.Intn(22)
	for i := 0; i < n; i++ {
		switch r.Pick(12, 6, 1) {
		case 0:
			now += int64(r.Intn(int(period)/2 + 1))
			lat := latSamples[r.Intn(len(latSamples))]
			if r.Chance(1, 3) {
				lat = int64(r.Intn(3000)) - 200
			}
			c.Ops = append(c.Ops, Op{K: "compute", Now: now, TS: now - lat})
		case 1:
			switch r.Pick(6, 2, 1) {
			case 0:
				now += period
			case 1:
				now += int64(r.Intn(int(period) + 1))
			default:
				now += 3 * period
			}
			c.Ops = append(c.Ops, Op{K: "update", Now: now})
		default:
			now += int64(r.Intn(int(period) + 1))
			c.Ops = append(c.Ops, Op{K: "last", Now: now})
		}
	}
	return c
}

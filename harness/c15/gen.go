// Generators of the C15 harness (cache histories; latency histories are in lat.go).
package main

import (
	"fmt"

	"github.com/openconfig/gnmi/zz_verif/vh"
)

const requireLibs = "CTree.CTreeModel Path.PathModel Cache.CacheModel Cache.MultiCache Cache.C14Check Latency.LatencyModel Cache.C15Check"
const caseTypeName = "c15case"
const checkFnName = "check_all15"

func wrapCase(t *termer, c *Case, term string) string { return "CCache " + term }

// the [mutate; announce] atomicity family belongs to C14
func addConcCase(e *emitter, c *Case) {}


var allTargets = []string{"t", "u", "v", "w"}

// ---------------------------------------------------------------------------
// non-triviality: the call was (partly) rejected as stale / future, or was
// suppressed, or announced a delete, or is an UpdateMetadata exporting a
// latest timestamp other than 0.

func nontrivialStep(c *Case, i int) bool {
	o := &c.Ops[i]
	ob := &c.Obs[i]
	if ob.Res == "stale" || ob.Res == "future" || ob.Res == "multi" {
		return true
	}
	if o.K == "upd" && ob.Res == "ok" && len(ob.Feed) == 0 && o.N != nil && len(o.N.Upd) == 1 {
		return true // suppressed
	}
	for _, f := range ob.Feed {
		if len(f.Del) > 0 {
			return true
		}
	}
	if o.K == "updatemeta" {
		for _, t := range ob.Tgts {
			if t.Meta != nil && t.Meta.Ints[9] != nil && *t.Meta.Ints[9] != 0 {
				return true
			}
		}
	}
	return false
}

// ---------------------------------------------------------------------------
// exhaustive short histories over two targets

func exhAlphabet() []Op {
	return []Op{
		{K: "upd", N: updN(5, pfx("t", "a"), pth("b"), ival(1))},
		{K: "upd", N: updN(6, pfx("t", "a"), pth("b"), ival(1))}, // newer, same value: suppressed
		{K: "upd", N: updN(4, pfx("t", "a"), pth("b"), ival(2))}, // older: stale
		{K: "upd", N: delN(7, pfx("t"), pth("*"))},               // wildcard delete (covers meta)
		{K: "upd", N: &NotiJ{TS: 5, Prefix: &PathJ{Target: "t"}}}, // empty
		{K: "upd", N: updN(5, &PathJ{Target: "t", Origin: "meta", Elems: elems("a")}, pth("b"), ival(1))}, // origin "meta": indexed under meta
		{K: "upd", N: &NotiJ{TS: 5, Prefix: pfx("t", "g"), Atomic: true}}, // atomic, empty
		{K: "upd", N: &NotiJ{TS: 6, Prefix: pfx("t", "g"), Atomic: true, Upd: []UpdJ{{Path: pth("x"), Val: ival(1)}, {Path: pth("y"), Val: ival(2)}}}}, // atomic group of two: one leaf
		{K: "upd", N: updN(8, &PathJ{Target: "t"}, &PathJ{Element: []string{"c", "d"}}, ival(1))}, // deprecated element path
		{K: "reset", Tgt: "t"},
		{K: "connecterror", Tgt: "t", Msg: "boom"},
		{K: "connect", Tgt: "t"},
		{K: "updatemeta"},
	}
}

func exhaustive(e *emitter, family string, al []Op, depth int) {
	idx := make([]int, depth)
	var rec func(d int)
	rec = func(d int) {
		if d == depth {
			ops := make([]Op, depth)
			for i, k := range idx {
				ops[i] = al[k]
				ops[i].Now = int64(i + 1)
			}
			e.add(&Case{Family: family, Cfg: CfgJ{EventDriven: true}, Targets: []string{"t"}, Ops: ops})
			return
		}
		for i := range al {
			idx[d] = i
			rec(d + 1)
		}
	}
	rec(0)
}

// ---------------------------------------------------------------------------
// random histories

type gen struct {
	r      *vh.Rand
	names  []string
	clock  int64
	stream bool
}

func (g *gen) tick() int64 {
	g.clock += int64(g.r.Intn(3))
	return g.clock
}

func (g *gen) ts() int64 {
	switch g.r.Pick(20, 3, 1) {
	case 0:
		return int64(1 + g.r.Intn(4))
	case 1:
		return 5 + int64(g.r.Intn(6))
	}
	return 1700000000000000000 + int64(g.r.Intn(3))
}

func (g *gen) target() string { return g.names[g.r.Intn(len(g.names))] }

func (g *gen) val() *ValJ {
	switch g.r.Pick(10, 3, 1, 1, 1) {
	case 0:
		return ival(int64(1 + g.r.Intn(2)))
	case 1:
		return sval([]string{"x", "y"}[g.r.Intn(2)])
	case 2:
		return &ValJ{K: "uint", I: int64(1 + g.r.Intn(2))}
	case 3:
		return bval(g.r.Chance(1, 2))
	}
	return &ValJ{K: "json", S: "{\"k\":1}"}
}

var fullPaths = [][]ElemJ{
	elems("a", "b"),
	elems("a", "c"),
	{{Name: "d", Keys: map[string]string{"k": "1"}}, {Name: "e"}},
	elems("f"),
	elems("g", "h", "i"),
	elems("a", "b", "c"), // collides with a/b
}

func (g *gen) fullPath() []ElemJ { return fullPaths[g.r.Pick(8, 6, 3, 4, 3, 1)] }

func (g *gen) prefix(t string, pe []ElemJ) *PathJ {
	p := &PathJ{Target: t, Elems: pe}
	if g.r.Chance(1, 8) {
		p.Origin = "o"
		if g.r.Chance(1, 3) {
			p.Origin = "meta" // a legal origin that makes the index path start with "meta"
		}
	}
	return p
}

func (g *gen) notification() *NotiJ {
	t := g.target()
	switch g.r.Pick(50, 12, 6, 8, 2, 4, 2, 3) {
	case 0: // single update, random prefix/path split
		full := g.fullPath()
		k := g.r.Intn(len(full) + 1)
		n := &NotiJ{TS: g.ts(), Prefix: g.prefix(t, full[:k]), Upd: []UpdJ{{Path: &PathJ{Elems: full[k:]}, Val: g.val()}}}
		if g.r.Chance(1, 25) && k == 0 { // deprecated element form
			var names []string
			for _, x := range full {
				names = append(names, x.Name)
			}
			n.Upd[0].Path = &PathJ{Element: names}
		}
		return n
	case 1: // single delete
		q := [][]string{{"a", "b"}, {"a", "*"}, {"*"}, {"a"}, {"d", "*"}, {"f"}, {"g"}, {"*", "b"}}[g.r.Pick(6, 5, 4, 5, 2, 3, 2, 2)]
		k := 0
		if len(q) > 1 && q[0] != "*" && g.r.Chance(1, 2) {
			k = 1
		}
		return &NotiJ{TS: g.ts(), Prefix: g.prefix(t, elems(q[:k]...)), Del: []PathJ{{Elems: elems(q[k:]...)}}}
	case 2: // atomic container
		at := [][]string{{"a", "b"}, {"g"}, {"a"}}[g.r.Pick(3, 4, 1)]
		n := &NotiJ{TS: g.ts(), Prefix: g.prefix(t, elems(at...)), Atomic: true}
		k := 1 + g.r.Intn(2)
		for i := 0; i < k; i++ {
			n.Upd = append(n.Upd, UpdJ{Path: pth([]string{"x", "y"}[i]), Val: g.val()})
		}
		if g.r.Chance(1, 6) { // atomic notification without updates: counted in empty
			n.Upd = nil
		}
		if g.r.Chance(1, 8) { // atomic deletes are refused as a whole
			n.Del = []PathJ{*pth("z")}
		}
		return n
	case 3: // multi, pairwise distinct update paths
		n := &NotiJ{TS: g.ts(), Prefix: &PathJ{Target: t}}
		perm := []int{0, 1, 2, 3, 4}
		for i := range perm {
			j := i + g.r.Intn(len(perm)-i)
			perm[i], perm[j] = perm[j], perm[i]
		}
		nu, nd := g.r.Intn(4), g.r.Intn(3)
		if nu+nd < 2 {
			nu = 2
		}
		for i := 0; i < nu; i++ {
			n.Upd = append(n.Upd, UpdJ{Path: &PathJ{Elems: fullPaths[perm[i]]}, Val: g.val()})
		}
		for i := 0; i < nd; i++ {
			q := [][]string{{"a", "b"}, {"a", "*"}, {"f"}, {"d", "*"}, {"g"}}[g.r.Intn(5)]
			n.Del = append(n.Del, PathJ{Elems: elems(q...)})
		}
		return n
	case 4: // empty
		return &NotiJ{TS: g.ts(), Prefix: &PathJ{Target: t}}
	case 5: // metadata written from outside, stamped with the clock as the cache's own writers do
		k := []string{"sync", "connected", "connectedAddress"}[g.r.Intn(3)]
		var v *ValJ
		switch k {
		case "sync", "connected":
			v = bval(g.r.Chance(2, 3))
		default:
			v = sval("10.0.0.1")
		}
		return &NotiJ{TS: g.clock, Prefix: &PathJ{Target: t}, Upd: []UpdJ{{Path: pth("meta", k), Val: v}}}
	case 6: // unknown target / no prefix
		n := updN(g.ts(), pfx("nosuch", "a"), pth("b"), ival(1))
		if g.r.Chance(1, 2) {
			n.Prefix = nil
		}
		return n
	default: // whole path in the prefix
		full := g.fullPath()
		return &NotiJ{TS: g.ts(), Prefix: g.prefix(t, full), Upd: []UpdJ{{Path: &PathJ{}, Val: g.val()}}}
	}
}

// randomCase: 2..4 target names with overlapping path sets; GnmiUpdate calls
// interleaved with lifecycle calls; the clock never runs backwards.
func randomCase(r *vh.Rand, stream bool, maxOps int) *Case {
	g := &gen{r: r, stream: stream}
	k := 1 + r.Intn(2)
	g.names = append([]string{}, allTargets[:k]...)
	c := &Case{Family: "random"}
	if stream {
		c.Family = "stream"
	}
	for _, nm := range g.names {
		if r.Chance(3, 4) {
			c.Targets = append(c.Targets, nm)
		}
	}
	if len(c.Targets) == 0 {
		c.Targets = []string{g.names[0]}
	}
	c.Cfg.EventDriven = r.Chance(2, 3)
	if r.Chance(1, 3) {
		c.Cfg.Thr = 2
	}
	n := 3 + r.Intn(maxOps-2)
	wSub := 0
	if stream {
		wSub = 8
	}
	for i := 0; i < n; i++ {
		switch r.Pick(55, 6, 2, 2, 5, 7, 7, 14, 3, wSub) {
		case 0:
			now := g.tick()
			c.Ops = append(c.Ops, Op{K: "upd", Now: now, N: g.notification()})
		case 1:
			c.Ops = append(c.Ops, Op{K: "reset", Now: g.tick(), Tgt: g.target()})
		case 2:
			c.Ops = append(c.Ops, Op{K: "remove", Now: g.tick(), Tgt: g.target()})
		case 3:
			c.Ops = append(c.Ops, Op{K: "add", Now: g.tick(), Tgt: g.target()})
		case 4:
			c.Ops = append(c.Ops, Op{K: "sync", Now: g.tick(), Tgt: g.target()})
		case 5:
			c.Ops = append(c.Ops, Op{K: "connect", Now: g.tick(), Tgt: g.target()})
		case 6:
			c.Ops = append(c.Ops, Op{K: "connecterror", Now: g.tick(), Tgt: g.target(), Msg: "boom"})
		case 7:
			c.Ops = append(c.Ops, Op{K: "updatemeta", Now: g.tick()})
		case 8:
			c.Ops = append(c.Ops, Op{K: "updatesize", Now: g.tick()})
		default:
			t := g.target()
			if r.Chance(1, 4) {
				t = "*"
			}
			c.Ops = append(c.Ops, Op{K: "sub", Now: g.tick(), Tgt: t})
		}
	}
	if stream { // at least one subscriber, early
		t := g.target()
		if r.Chance(1, 3) {
			t = "*"
		}
		at := r.Intn(2)
		ops := append([]Op{}, c.Ops[:at]...)
		ops = append(ops, Op{K: "sub", Tgt: t})
		c.Ops = append(ops, c.Ops[at:]...)
	}
	return c
}

func ruleText() string {
	return "corpus cases; every history of 1..D calls (D=3 quick, 4 thorough) over a 13-call alphabet on one target " +
		"(update a/b@5, same value @6, other value @4, delete *, empty, update with origin meta, atomic empty, atomic group of two, deprecated element path, Reset, ConnectError, Connect, UpdateMetadata); " +
		"seeded random histories of 3..14 calls over 1..2 targets (single/multi/atomic/delete/empty notifications, timestamps mostly 1..4 so that " +
		"stale / equal / newer all occur, event-driven on/off, future threshold in {0,2}, wildcard deletes, element-form and prefix-only paths, " +
		"Sync/Connect/ConnectError/Reset/UpdateMetadata/UpdateSize under a monotone clock); " +
		"multi-update notifications mixing accepted and refused units (refusal by schema collision / invalid path / ErrFuture / ErrStale, " +
		"refused unit first, middle or last, 2..3 units) newer than the latest timestamp, followed by UpdateMetadata; " +
		"latency histories of 4..25 Compute/UpdateReset/UpdateLast calls (windows 2p/4p for period p in {10,1000}, precision in {unset,1ns,1us}, " +
		"latencies incl. 0, negative, multiples of the precision +-1); cache-level latency histories (cache built with latency windows 20/40 ns, " +
		"period 10 ns, one synced target, per period 1..4 single updates: accepted ones with latencies 1..8 ns mixed with stale replays, " +
		"suppressed / future-rejected updates far ahead of the clock and schema collisions whose latencies lie far outside that range, " +
		"then UpdateMetadata (sometimes off the period) or Reset+Sync). distinct = distinct inputs; " +
		"non-trivial = some call was rejected stale/future or suppressed, a delete was announced, a non-zero latest timestamp was exported, " +
		"or (latency) some stat was written, or (cache-level latency) a max was exported after some update had been rejected or suppressed"
}

func generate(e *emitter, o vh.Opts) {
	depth := 3
	if o.Thorough() {
		depth = 4
	}
	al := exhAlphabet()
	for d := 1; d <= depth; d++ {
		exhaustive(e, fmt.Sprintf("exhaustive-%d", d), al, d)
	}
	e.meta.Extra["exhaustive_alphabet_size"] = len(al)
	e.meta.Extra["exhaustive_depth"] = depth
	generateMultiMix(e, o)
	generateMultiFirst(e, o)
	generateCounterReset(e, o)
	r := vh.NewRand(o.Seed)
	nrand, nlat := 700, 1500
	if o.Thorough() {
		nrand, nlat = 20000, 30000
	}
	for i := 0; i < nrand; i++ {
		e.add(randomCase(r.Fork(), false, 14))
	}
	for i := 0; i < nlat; i++ {
		e.add(latCase(r.Fork()))
	}
	nclat := 600
	if o.Thorough() {
		nclat = 12000
	}
	for i := 0; i < nclat; i++ {
		e.add(clatCase(r.Fork()))
	}
}

// Race workload (thorough tier, supporting evidence only): one update stream
// per target running concurrently with the periodic UpdateMetadata /
// UpdateSize refresh, as cmd/gnmi_collector runs them.  Built with -race; the
// detector's report goes to stderr and is read by lib/props/c15.py.
package main

import (
	"fmt"
	"os"
	"sync"
	"time"

	"github.com/openconfig/gnmi/cache"
	"github.com/openconfig/gnmi/ctree"
)

func raceWorkload() {
	cache.Now = time.Now
	opts := []cache.Option{cache.WithFutureThreshold(time.Hour)}
	if o, err := cache.WithLatencyWindows([]string{"2s"}, time.Second); err == nil && o != nil {
		opts = append(opts, o)
	}
	c := cache.New([]string{"t", "u"}, opts...)
	c.SetClient(func(*ctree.Leaf) {})
	var wg sync.WaitGroup
	stop := make(chan struct{})
	for _, tgt := range []string{"t", "u"} {
		tgt := tgt
		wg.Add(1)
		go func() { // the target's update stream
			defer wg.Done()
			c.Connect(tgt)
			for i := 0; i < 400; i++ {
				ts := time.Now().UnixNano()
				c.GnmiUpdate(mkNoti(updN(ts, pfx(tgt, "a"), pth("b"), ival(int64(i)))))
				c.GnmiUpdate(mkNoti(updN(ts, pfx(tgt, "a"), pth([]string{"c", "d", "e"}[i%3]), ival(int64(i%2)))))
				if i == 50 {
					c.Sync(tgt)
				}
				if i%97 == 0 {
					c.GnmiUpdate(mkNoti(delN(ts, pfx(tgt, "a"), pth("c"))))
				}
			}
		}()
	}
	wg.Add(2)
	go func() { // periodic metadata refresh
		defer wg.Done()
		for {
			select {
			case <-stop:
				return
			default:
				c.UpdateMetadata()
				time.Sleep(50 * time.Microsecond)
			}
		}
	}()
	go func() { // periodic size refresh
		defer wg.Done()
		for {
			select {
			case <-stop:
				return
			default:
				c.UpdateSize()
				time.Sleep(80 * time.Microsecond)
			}
		}
	}()
	time.Sleep(300 * time.Millisecond)
	close(stop)
	wg.Wait()
	// quiescent: the counter laws must hold
	c.UpdateMetadata()
	for name, m := range c.Metadata() {
		lc, _ := m.GetInt("targetLeaves")
		ad, _ := m.GetInt("targetLeavesAdded")
		dl, _ := m.GetInt("targetLeavesDeleted")
		n := int64(0)
		c.Query(name, []string{"*"}, func(p []string, _ *ctree.Leaf, _ interface{}) error {
			if len(p) > 0 && p[0] != "meta" {
				n++
			}
			return nil
		})
		fmt.Fprintf(os.Stdout, "quiescent %s leaves=%d added=%d deleted=%d stored=%d\n", name, lc, ad, dl, n)
	}
}

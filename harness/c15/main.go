// Harness for C15 (per-target metadata counters and latency statistics are truthful).  See common.go for
// what is driven and observed, gen.go for the generators.
package main

import (
	"os"
	"sort"
	"strings"

	"github.com/openconfig/gnmi/zz_verif/vh"
)

const prop = "c15"

func main() {
	if os.Getenv("VERIF_C15_CONC") != "" {
		concWorkload()
		return
	}
	if os.Getenv("VERIF_C15_RACE") != "" {
		raceWorkload()
		return
	}
	realStderr := os.Stderr
	o := vh.ParseFlags()
	quietLogs()
	defer func() { os.Stderr = realStderr }()

	meta := vh.NewMeta(ruleText())
	e := &emitter{dir: o.Out, cf: newCaseFile(), meta: meta, limit: 250}

	if o.Replay != "" {
		for _, c := range readCases(o.Replay) {
			c := c
			if c.Family == "" {
				c.Family = "replay"
			}
			e.add(&c)
		}
		e.flush()
		meta.Write(o.Out)
		return
	}

	if dir := os.Getenv("VERIF_CORPUS"); dir != "" {
		ents, _ := os.ReadDir(dir)
		var names []string
		for _, en := range ents {
			if strings.HasSuffix(en.Name(), ".json") {
				names = append(names, en.Name())
			}
		}
		sort.Strings(names)
		for _, nm := range names {
			for _, c := range readCases(dir + "/" + nm) {
				c := c
				c.Family = "corpus"
				e.add(&c)
			}
		}
	}

	generate(e, o)
	e.flush()
	if err := meta.Write(o.Out); err != nil {
		os.Stderr = realStderr
		vh.Die("meta: %v", err)
	}
}

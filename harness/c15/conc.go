// Free-running concurrent workload of the QUICK tier, run in a child process
// (VERIF_C15_CONC=1) so that a fatal runtime error ("concurrent map writes",
// deadlock) is an observation of the parent, not a harness failure: one update
// stream over a growing store (16 subtrees x up to 400 leaves), an UpdateMetadata
// loop and an UpdateSize loop on ONE target, as cmd/gnmi_collector runs them, a
// few repetitions of ~150 ms; the refreshers stop before the stream does.  Printed per
// repetition: the counters at quiescence.
package main

import (
	"fmt"
	"os"
	"sync"
	"time"

	"github.com/openconfig/gnmi/cache"
	"github.com/openconfig/gnmi/ctree"
)

func concWorkload() {
	cache.Now = time.Now
	for rep := 0; rep < 4; rep++ {
		c := cache.New([]string{"t"})
		c.SetClient(func(*ctree.Leaf) {})
		stopRefresh := make(chan struct{})
		stopStream := make(chan struct{})
		var wgR, wgS sync.WaitGroup
		wgS.Add(1)
		wgR.Add(2)
		go func() { // the target's update stream: a store that keeps growing (16 subtrees x up to 400 leaves)
			defer wgS.Done()
			c.Connect("t")
			for i := 0; ; i++ {
				select {
				case <-stopStream:
					return
				default:
				}
				ts := time.Now().UnixNano()
				sub := fmt.Sprintf("s%d", i%16)
				leaf := fmt.Sprintf("l%d", (i/16)%400)
				c.GnmiUpdate(mkNoti(updN(ts, pfx("t", sub), pth(leaf), ival(int64(i)))))
				if i == 20 {
					c.Sync("t")
				}
				if i%97 == 96 { // and shrinks now and then
					c.GnmiUpdate(mkNoti(delN(ts, pfx("t", sub), pth(fmt.Sprintf("l%d", ((i/16)%400)/2)))))
				}
			}
		}()
		go func() { // periodic metadata refresh (tight: must overlap with the size refresh)
			defer wgR.Done()
			for {
				select {
				case <-stopRefresh:
					return
				default:
					c.UpdateMetadata()
				}
			}
		}()
		go func() { // periodic size refresh: walks the whole store without the target's write lock
			defer wgR.Done()
			for {
				select {
				case <-stopRefresh:
					return
				default:
					c.UpdateSize()
				}
			}
		}()
		wait := func(wg *sync.WaitGroup, what string) {
			done := make(chan struct{})
			go func() { wg.Wait(); close(done) }()
			select {
			case <-done:
			case <-time.After(10 * time.Second):
				fmt.Fprintln(os.Stdout, "HANG: "+what+" did not stop")
				os.Exit(3)
			}
		}
		// phase 1: everything runs; phase 2: the refreshers stop first and the
		// stream goes on for a moment, so that no final refresh can paper over
		// what the concurrent phase did to the counters
		time.Sleep(150 * time.Millisecond)
		close(stopRefresh)
		wait(&wgR, "refresh goroutines")
		time.Sleep(10 * time.Millisecond)
		close(stopStream)
		wait(&wgS, "update stream")
		m := c.Metadata()["t"]
		get := func(k string) int64 { v, _ := m.GetInt(k); return v }
		n := int64(0)
		c.Query("t", []string{"*"}, func(p []string, _ *ctree.Leaf, _ interface{}) error {
			if len(p) > 0 && p[0] != "meta" {
				n++
			}
			return nil
		})
		fmt.Fprintf(os.Stdout, "quiescent rep=%d leaves=%d added=%d deleted=%d stored=%d updated=%d\n",
			rep, get("targetLeaves"), get("targetLeavesAdded"), get("targetLeavesDeleted"), n, get("targetLeavesUpdated"))
	}
	fmt.Fprintln(os.Stdout, "conc-done")
}

// Free-running concurrent workload of the QUICK tier, run in a child process
// (VERIF_C15_CONC=1) so that a fatal runtime error ("concurrent map writes",
// deadlock) is an observation of the parent, not a harness failure: one update
// stream, an UpdateMetadata loop and an UpdateSize loop on ONE target, as
// cmd/gnmi_collector runs them, a few repetitions of ~150 ms.  Printed per
// repetition: the counters at quiescence.
package main

import (
	"fmt"
	"os"
	"sync"
	"time"

	"github.com/openconfig/gnmi/cache"
	"github.com/openconfig/gnmi/ctree"
)

func concWorkload() {
	cache.Now = time.Now
	for rep := 0; rep < 4; rep++ {
		c := cache.New([]string{"t"})
		c.SetClient(func(*ctree.Leaf) {})
		stop := make(chan struct{})
		var wg sync.WaitGroup
		wg.Add(3)
		go func() { // the target's update stream
			defer wg.Done()
			c.Connect("t")
			for i := 0; ; i++ {
				select {
				case <-stop:
					return
				default:
				}
				ts := time.Now().UnixNano()
				c.GnmiUpdate(mkNoti(updN(ts, pfx("t", "a"), pth([]string{"b", "c", "d", "e"}[i%4]), ival(int64(i%3)))))
				if i == 20 {
					c.Sync("t")
				}
				if i%53 == 52 {
					c.GnmiUpdate(mkNoti(delN(ts, pfx("t", "a"), pth("c"))))
				}
			}
		}()
		go func() { // periodic metadata refresh (tight: must overlap with the size refresh)
			defer wg.Done()
			for {
				select {
				case <-stop:
					return
				default:
					c.UpdateMetadata()
				}
			}
		}()
		go func() { // periodic size refresh
			defer wg.Done()
			for {
				select {
				case <-stop:
					return
				default:
					c.UpdateSize()
				}
			}
		}()
		time.Sleep(150 * time.Millisecond)
		close(stop)
		done := make(chan struct{})
		go func() { wg.Wait(); close(done) }()
		select {
		case <-done:
		case <-time.After(10 * time.Second):
			fmt.Fprintln(os.Stdout, "HANG: workload goroutines did not stop")
			os.Exit(3)
		}
		c.UpdateMetadata()
		m := c.Metadata()["t"]
		get := func(k string) int64 { v, _ := m.GetInt(k); return v }
		n := int64(0)
		c.Query("t", []string{"*"}, func(p []string, _ *ctree.Leaf, _ interface{}) error {
			if len(p) > 0 && p[0] != "meta" {
				n++
			}
			return nil
		})
		fmt.Fprintf(os.Stdout, "quiescent rep=%d leaves=%d added=%d deleted=%d stored=%d updated=%d\n",
			rep, get("targetLeaves"), get("targetLeavesAdded"), get("targetLeavesDeleted"), n, get("targetLeavesUpdated"))
	}
	fmt.Fprintln(os.Stdout, "conc-done")
}

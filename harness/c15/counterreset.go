// Round 7, family "counter-reset" (known finding KF-C15-3): data updates, then
// a delete addressed to meta/<int counter> (gnmiRemove -> metadata.ResetEntry
// zeroes the counter), to "meta" or to "meta/*" (which reset nothing), with a
// timestamp newer than the metadata leaves; then UpdateMetadata, more updates,
// UpdateMetadata, Reset, an update, UpdateMetadata.
package main

import "github.com/openconfig/gnmi/zz_verif/vh"

var intCounters = []string{"targetLeavesAdded", "targetLeavesDeleted", "targetLeavesEmpty", "targetLeaves",
	"targetLeavesUpdated", "targetLeavesStale", "targetLeavesFuture", "targetLeavesSuppressed", "targetSize",
	"latestTimestamp"}

// where: path below the target of the delete; pre: an UpdateMetadata before the
// delete (the metadata leaves exist); multi: the delete travels in one
// notification with an update.
func counterResetCase(where []string, pre, multi, edOn bool) *Case {
	c := &Case{Family: "counter-reset", Targets: []string{"t"}, Cfg: CfgJ{EventDriven: edOn}}
	c.Ops = append(c.Ops,
		Op{K: "upd", Now: 10, N: updN(100, pfx("t", "a"), pth("b"), ival(1))},
		Op{K: "upd", Now: 11, N: updN(101, pfx("t", "a"), pth("c"), ival(1))},
		Op{K: "upd", Now: 12, N: updN(90, pfx("t", "a"), pth("c"), ival(2))}, // stale
		Op{K: "upd", Now: 13, N: delN(200, pfx("t", "a"), pth("c"))})
	if pre {
		c.Ops = append(c.Ops, Op{K: "updatemeta", Now: 14})
	}
	d := delN(9000, pfx("t"), pth(where...))
	if multi {
		d.Upd = []UpdJ{{Path: pth("a", "e"), Val: ival(5)}}
	}
	c.Ops = append(c.Ops,
		Op{K: "upd", Now: 20, N: d},
		Op{K: "updatemeta", Now: 21},
		Op{K: "upd", Now: 22, N: updN(9100, pfx("t", "a"), pth("d"), ival(1))},
		Op{K: "updatemeta", Now: 23},
		Op{K: "reset", Now: 24, Tgt: "t"},
		Op{K: "upd", Now: 25, N: updN(9200, pfx("t", "a"), pth("b"), ival(1))},
		Op{K: "updatemeta", Now: 26})
	return c
}

func generateCounterReset(e *emitter, o vh.Opts) {
	var wheres [][]string
	for _, k := range intCounters {
		wheres = append(wheres, []string{"meta", k})
	}
	wheres = append(wheres, []string{"meta"}, []string{"meta", "*"})
	for _, w := range wheres {
		for _, pre := range []bool{true, false} {
			for _, multi := range []bool{false, true} {
				for _, ed := range []bool{true, false} {
					if !pre && !ed {
						continue
					}
					e.add(counterResetCase(w, pre, multi, ed))
				}
			}
		}
	}
}

// Cache-level latency histories: one real cache.Cache built WITH latency
// windows (cache.WithLatencyWindows), one target, clock and latency.Now fixed
// per call.  Observed per call: the result class, whether the call announced
// anything, and after UpdateMetadata / Reset the current values of the latency
// statistics in Metadata() for every window.
package main

import (
	"encoding/json"
	"fmt"
	"time"

	"github.com/openconfig/gnmi/cache"
	"github.com/openconfig/gnmi/ctree"
	"github.com/openconfig/gnmi/latency"
	"github.com/openconfig/gnmi/metadata"
	"github.com/openconfig/gnmi/zz_verif/vh"
)

const clatPeriod = 10 // ns; windows are multiples of it

func runClat(c *Case) {
	var ws []string
	for _, w := range c.Windows {
		ws = append(ws, fmt.Sprintf("%dns", w))
	}
	now := int64(0)
	cache.Now = func() time.Time { return time.Unix(0, now) }
	latency.Now = func() time.Time { return time.Unix(0, now) }
	var opts []cache.Option
	lw, err := cache.WithLatencyWindows(ws, clatPeriod*time.Nanosecond)
	if err != nil || lw == nil {
		vh.Die("latency windows: %v", err)
	}
	opts = append(opts, lw)
	if c.Prec != 0 {
		opts = append(opts, cache.WithAvgLatencyPrecision(time.Duration(c.Prec)))
	}
	if c.Cfg.Thr != 0 {
		opts = append(opts, cache.WithFutureThreshold(time.Duration(c.Cfg.Thr)))
	}
	if !c.Cfg.EventDriven {
		opts = append(opts, cache.DisableEventDrivenEmulation())
	}
	ca := cache.New(c.Targets, opts...)
	// the registration is global (metadata.TargetIntValues): undo it afterwards
	defer func() {
		for _, w := range c.Windows {
			for _, typ := range []latency.StatType{latency.Avg, latency.Max, latency.Min} {
				metadata.UnregisterIntValue(latency.MetadataName(time.Duration(w), typ))
			}
		}
	}()
	fed := 0
	ca.SetClient(func(*ctree.Leaf) { fed++ })
	tgt := c.Targets[0]
	c.Obs = make([]ObsJ, len(c.Ops))
	for i := range c.Ops {
		o := &c.Ops[i]
		now = o.Now
		fed = 0
		ob := ObsJ{Res: "ok"}
		func() {
			defer func() {
				if p := recover(); p != nil {
					ob = ObsJ{Res: "panic", Msg: fmt.Sprint(p)}
				}
			}()
			switch o.K {
			case "upd":
				ob.Res, ob.Multi = classify(ca.GnmiUpdate(mkNoti(o.N)))
			case "sync":
				ca.Sync(o.Tgt)
			case "reset":
				ca.Reset(o.Tgt)
			case "updatemeta":
				ca.UpdateMetadata()
			default:
				panic("clat op " + o.K)
			}
		}()
		ob.Fed = fed > 0
		if o.K == "updatemeta" || o.K == "reset" {
			m := ca.Metadata()[tgt]
			for _, w := range c.Windows {
				st := &WStatJ{}
				if m != nil {
					if v, err := m.GetInt(latency.MetadataName(time.Duration(w), latency.Avg)); err == nil {
						v := v
						st.Avg = &v
					}
					if v, err := m.GetInt(latency.MetadataName(time.Duration(w), latency.Max)); err == nil {
						v := v
						st.Max = &v
					}
					if v, err := m.GetInt(latency.MetadataName(time.Duration(w), latency.Min)); err == nil {
						v := v
						st.Min = &v
					}
				}
				ob.Lat = append(ob.Lat, st)
			}
		}
		c.Obs[i] = ob
	}
}

func clatTerm(t *termer, c *Case) string {
	steps := make([]string, len(c.Ops))
	for i := range c.Ops {
		ob := &c.Obs[i]
		obs := make([]string, len(ob.Lat))
		for j, st := range ob.Lat {
			obs[j] = fmt.Sprintf("WS %s %s %s", oz(st.Avg), oz(st.Max), oz(st.Min))
		}
		steps[i] = fmt.Sprintf("CLSTEP (%s) %s %s %s", t.op(&c.Ops[i], c.Targets), t.res(ob), vh.Bool(ob.Fed), vh.List(obs))
	}
	ws := make([]string, len(c.Windows))
	for i, w := range c.Windows {
		ws[i] = zlit(w)
	}
	return fmt.Sprintf("CCacheLat (Cfg %s %s [], %s, %s, %s, %s)", zlit(c.Cfg.Thr), vh.Bool(c.Cfg.EventDriven),
		t.str(c.Targets[0]), vh.List(ws), zlit(c.Prec), vh.List(steps))
}

func addClatCase(e *emitter, c *Case) {
	runClat(c)
	e.cf.addRaw(clatTerm(e.cf.t, c), c)
	nontrivial, rejected := false, false
	for i, o := range c.Ops {
		e.meta.Hist("clatop:" + o.K)
		ob := &c.Obs[i]
		if o.K == "upd" && (ob.Res != "ok" || !ob.Fed) {
			rejected = true
			e.meta.Hist("clat:rejected-or-suppressed")
		}
		for _, st := range ob.Lat {
			if st != nil && st.Max != nil && rejected {
				nontrivial = true
			}
		}
	}
	cj, _ := json.Marshal(struct {
		C CfgJ
		W []int64
		P int64
		O []Op
	}{c.Cfg, c.Windows, c.Prec, c.Ops})
	e.meta.Count(c.Family, string(cj), nontrivial, map[string]interface{}{"family": c.Family, "kind": "clat", "cfg": c.Cfg, "windows": c.Windows, "prec": c.Prec, "ops": c.Ops})
	if e.cf.Len() >= e.limit {
		e.flush()
	}
}

// ---------------------------------------------------------------------------
// generator: a synced target; per period a few updates -- accepted ones with
// small latencies, and stale / future / colliding / suppressed ones whose
// latencies lie far outside that range -- then UpdateMetadata; sometimes Reset.

func clatCase(r *vh.Rand) *Case {
	c := &Case{Family: "cache-latency", Kind: "clat", Targets: []string{"t"}, Prec: []int64{0, 0, 2}[r.Intn(3)]}
	c.Cfg.EventDriven = r.Chance(3, 4)
	if r.Chance(1, 2) {
		c.Cfg.Thr = 50
	}
	switch r.Intn(3) {
	case 0:
		c.Windows = []int64{2 * clatPeriod}
	case 1:
		c.Windows = []int64{2 * clatPeriod, 4 * clatPeriod}
	default:
		c.Windows = []int64{4 * clatPeriod}
	}
	now := int64(100000)
	leaves := []string{"b", "c", "d"}
	stored := map[string]int64{} // timestamp the cache holds per leaf (as far as the generator knows)
	val := map[string]int64{}
	if r.Chance(9, 10) {
		c.Ops = append(c.Ops, Op{K: "sync", Now: now, Tgt: "t"})
	}
	periods := 3 + r.Intn(6)
	for p := 0; p < periods; p++ {
		k := 1 + r.Intn(4)
		for i := 0; i < k; i++ {
			now += int64(r.Intn(3))
			leaf := leaves[r.Intn(len(leaves))]
			var n *NotiJ
			switch r.Pick(10, 4, 3, 3, 2) {
			case 0: // accepted: newer timestamp, new value, small latency
				ts := now - int64(1+r.Intn(8))
				if ts <= stored[leaf] {
					ts = stored[leaf] + 1
				}
				val[leaf]++
				stored[leaf] = ts
				n = updN(ts, pfx("t", "a"), pth(leaf), ival(val[leaf]))
			case 1: // stale replay of a very old value
				n = updN(stored[leaf]-int64(500+r.Intn(4000)), pfx("t", "a"), pth(leaf), ival(val[leaf]+7))
			case 2: // same value, newer timestamp far ahead: suppressed (or future-rejected with a threshold)
				ts := now + int64(200+r.Intn(2000))
				n = updN(ts, pfx("t", "a"), pth(leaf), ival(val[leaf]))
				if c.Cfg.EventDriven && c.Cfg.Thr == 0 && stored[leaf] != 0 {
					stored[leaf] = ts
				}
			case 3: // different value far in the future: rejected with a threshold, accepted without
				ts := now + int64(300+r.Intn(3000))
				n = updN(ts, pfx("t", "a"), pth(leaf), ival(val[leaf]+100))
			default: // schema collision below a leaf
				n = updN(now-int64(900+r.Intn(900)), pfx("t", "a", leaf), pth("x"), ival(1))
			}
			c.Ops = append(c.Ops, Op{K: "upd", Now: now, N: n})
		}
		switch r.Pick(8, 2, 1) {
		case 0:
			now += clatPeriod
		case 1:
			now += int64(r.Intn(clatPeriod + 1))
		default:
			now += 3 * clatPeriod
		}
		if r.Chance(1, 12) {
			c.Ops = append(c.Ops, Op{K: "reset", Now: now, Tgt: "t"})
			stored, val = map[string]int64{}, map[string]int64{}
			if r.Chance(4, 5) {
				c.Ops = append(c.Ops, Op{K: "sync", Now: now, Tgt: "t"})
			}
		} else {
			c.Ops = append(c.Ops, Op{K: "updatemeta", Now: now})
		}
	}
	return c
}

// Drivers: each runs the real code of one entry point on wire-round-tripped
// messages under recover() and a watchdog and projects what it did.
package main

import (
	"context"
	"encoding/json"
	"errors"
	"fmt"
	"io"
	"net"
	"regexp"
	"sort"
	"strconv"
	"strings"
	"time"

	"google.golang.org/grpc"
	"google.golang.org/grpc/codes"
	"google.golang.org/grpc/peer"
	"google.golang.org/grpc/status"

	"github.com/openconfig/gnmi/cache"
	"github.com/openconfig/gnmi/cli"
	"github.com/openconfig/gnmi/client"
	gclient "github.com/openconfig/gnmi/client/gnmi"
	"github.com/openconfig/gnmi/ctree"
	"github.com/openconfig/gnmi/connection"
	"github.com/openconfig/gnmi/errlist"
	"github.com/openconfig/gnmi/latency"
	"github.com/openconfig/gnmi/metadata"
	"github.com/openconfig/gnmi/path"
	"github.com/openconfig/gnmi/manager"
	pb "github.com/openconfig/gnmi/proto/gnmi"
	"github.com/openconfig/gnmi/subscribe"
	"github.com/openconfig/gnmi/zz_verif/vh"
)

// guard runs f under recover and a watchdog. "ok", "panic" or "hang".
func guard(f func()) (res string, what string) {
	done := make(chan [2]string, 1)
	go func() {
		defer func() {
			if r := recover(); r != nil {
				done <- [2]string{"panic", fmt.Sprint(r)}
			}
		}()
		f()
		done <- [2]string{"ok", ""}
	}()
	// a deadlocked call is an observation too; after a few of them the
	// watchdog gets impatient so that a tree that hangs everywhere still ends
	to := 3 * time.Second
	if hangs >= 5 {
		to = 300 * time.Millisecond
	}
	select {
	case r := <-done:
		return r[0], r[1]
	case <-time.After(to):
		hangs++
		return "hang", ""
	}
}

var hangs int

// ---------------------------------------------------------------------------
// ingest

// DLeaf is one stored leaf of the Query dump.
type DLeaf struct {
	Path []string `json:"p"`
	TS   int64    `json:"ts"`
	Val  TV       `json:"v"`
}

// IObs is the observation of one ingest step.
type IObs struct {
	Refresh bool               `json:"refresh,omitempty"`
	Res     string             `json:"res"` // ok stale other errs panic hang
	NErrs   int                `json:"nerrs,omitempty"`
	Panic   string             `json:"panic,omitempty"`
	Dump    map[string][]DLeaf `json:"dump,omitempty"`
}

func pathLess(a, b []string) bool {
	for i := 0; i < len(a) && i < len(b); i++ {
		if a[i] != b[i] {
			return a[i] < b[i]
		}
	}
	return len(a) < len(b)
}

func dumpCache(c *cache.Cache, targets []string) map[string][]DLeaf {
	out := map[string][]DLeaf{}
	for _, t := range targets {
		if t == "" {
			continue // Cache.Query rejects the empty target name
		}
		ls := []DLeaf{}
		c.Query(t, []string{"*"}, func(p []string, _ *ctree.Leaf, v interface{}) error {
			n, ok := v.(*pb.Notification)
			if !ok {
				ls = append(ls, DLeaf{Path: append([]string{}, p...), TS: -999})
				return nil
			}
			var val TV = TV{K: "nil"}
			if len(n.GetUpdate()) > 0 {
				val = tvAbs(n.GetUpdate()[0].GetVal())
			}
			ls = append(ls, DLeaf{Path: append([]string{}, p...), TS: n.GetTimestamp(), Val: val})
			return nil
		})
		sort.Slice(ls, func(i, j int) bool { return pathLess(ls[i].Path, ls[j].Path) })
		out[t] = ls
	}
	return out
}

// runIngest feeds the steps to a fresh cache; the returned ops hold the
// messages as the code saw them.
// IOpts are the cache options of an ingest case.
type IOpts struct{ NoEvent, SrvName, Latency bool }

const latWindow = 10 * time.Nanosecond

func runIngest(targets []string, io IOpts, ops []Op) ([]Op, []IObs) {
	// the optional metadata are registered in package-level maps: start clean
	metadata.UnregisterServerNameMetadata()
	for _, typ := range []latency.StatType{latency.Avg, latency.Max, latency.Min} {
		metadata.UnregisterIntValue(latency.MetadataName(latWindow, typ))
	}
	now := int64(1000)
	cache.Now = func() time.Time { return time.Unix(0, now) }
	latency.Now = cache.Now
	opts := []cache.Option{nil} // a nil Option is legal and skipped
	if io.NoEvent {
		opts = append(opts, cache.DisableEventDrivenEmulation())
	}
	if io.SrvName {
		opts = append(opts, cache.WithServerName("srv"))
	}
	if io.Latency {
		lw, err := cache.WithLatencyWindows([]string{"10ns"}, time.Nanosecond)
		if err != nil {
			vh.Die("latency windows: %v", err)
		}
		opts = append(opts, lw)
	}
	var c *cache.Cache
	if res, what := guard(func() { c = cache.New(targets, opts...) }); res != "ok" {
		// the constructor itself failed: every step of the case is that failure
		var seen []Op
		var obs []IObs
		for _, op := range ops {
			if op.K == "refresh" {
				seen = append(seen, Op{K: "refresh"})
				obs = append(obs, IObs{Refresh: true, Res: res, Panic: what})
			} else if op.K == "msg" && op.N != nil {
				m := &pb.Notification{}
				wire(notiPB(op.N), m)
				seen = append(seen, Op{K: "msg", N: notiAbs(m)})
				obs = append(obs, IObs{Res: res, Panic: "cache.New: " + what, Dump: map[string][]DLeaf{}})
			}
		}
		return seen, obs
	}
	// every accepted update is also handed to a subscribe server (Server.Update
	// indexes the notification's paths to find subscribers), as in the collector
	if srv, err := subscribe.NewServer(c); err == nil {
		c.SetClient(srv.Update)
	}
	seen := make([]Op, 0, len(ops))
	obs := make([]IObs, 0, len(ops))
	hung := false
	for _, op := range ops {
		now += 10
		if hung {
			// the target's lock is gone: later calls of this case would only wait
			if op.K == "refresh" {
				seen = append(seen, Op{K: "refresh"})
				obs = append(obs, IObs{Refresh: true, Res: "hang"})
			} else if op.K == "msg" && op.N != nil {
				m := &pb.Notification{}
				wire(notiPB(op.N), m)
				seen = append(seen, Op{K: "msg", N: notiAbs(m)})
				obs = append(obs, IObs{Res: "hang", Dump: obs[len(obs)-1].Dump})
			}
			continue
		}
		if op.K == "refresh" {
			res, what := guard(func() { c.UpdateMetadata() })
			seen = append(seen, Op{K: "refresh"})
			obs = append(obs, IObs{Refresh: true, Res: res, Panic: what})
			continue
		}
		if op.K != "msg" || op.N == nil {
			continue
		}
		m := &pb.Notification{}
		wire(notiPB(op.N), m)
		abs := notiAbs(m)
		var err error
		res, what := guard(func() { err = c.GnmiUpdate(m) })
		o := IObs{Res: res, Panic: what}
		if res == "hang" {
			hung = true
			o.Dump = map[string][]DLeaf{}
			if len(obs) > 0 {
				o.Dump = obs[len(obs)-1].Dump
			}
			seen = append(seen, Op{K: "msg", N: abs})
			obs = append(obs, o)
			continue
		}
		if res == "ok" && err != nil {
			var el errlist.Errors
			switch {
			case errors.Is(err, cache.ErrStale):
				o.Res = "stale"
			case errors.As(err, &el):
				o.Res = "errs"
				o.NErrs = len(el.Errors())
			default:
				o.Res = "other"
			}
		}
		o.Dump = dumpCache(c, targets)
		seen = append(seen, Op{K: "msg", N: abs})
		obs = append(obs, o)
	}
	return seen, obs
}

func gDump(nm *vh.Names, d map[string][]DLeaf) string {
	ts := make([]string, 0, len(d))
	for t := range d {
		ts = append(ts, t)
	}
	sort.Strings(ts)
	parts := make([]string, len(ts))
	for i, t := range ts {
		ls := make([]string, len(d[t]))
		for j, l := range d[t] {
			ls[j] = fmt.Sprintf("(%s, %s, %s)", nm.Path(l.Path), vh.Z(l.TS), gTV(nm, l.Val))
		}
		parts[i] = fmt.Sprintf("(%s, %s)", nm.Ref(t), vh.List(ls))
	}
	return vh.List(parts)
}

func ingestTerm(nm *vh.Names, targets []string, io IOpts, ops []Op, obs []IObs) string {
	steps := make([]string, len(ops))
	prev := ""
	for i, op := range ops {
		o := obs[i]
		if op.K == "refresh" {
			steps[i] = fmt.Sprintf("(IRefresh, ORefresh %s)", vh.Bool(o.Res != "ok"))
			continue
		}
		var r string
		switch o.Res {
		case "ok":
			r = "ROk"
		case "stale":
			r = "RStale"
		case "other":
			r = "ROther"
		case "errs":
			r = fmt.Sprintf("(RErrs %s)", vh.Nat(o.NErrs))
		default:
			r = "RPanic"
		}
		d := gDump(nm, o.Dump)
		if d == prev {
			d = "None"
		} else {
			prev = d
			d = "(Some " + d + ")"
		}
		steps[i] = fmt.Sprintf("(IMsg %s, OIngest %s %s)", gNotif(nm, op.N), r, d)
	}
	return fmt.Sprintf("CIngest (%s, %s, %s) %s %s", vh.Bool(io.SrvName), vh.Bool(io.Latency), vh.Bool(!io.NoEvent),
		nm.Path(targets), vh.List(steps))
}

// ---------------------------------------------------------------------------
// Subscribe

var errStop = errors.New("harness: stop after sync")
var errRecv = errors.New("harness: scripted receive error")

type subStream struct {
	grpc.ServerStream
	ctx    context.Context
	first  *pb.SubscribeRequest
	ferr   error
	calls  int
	synced bool
	syncCh chan struct{}
}

func (s *subStream) Context() context.Context { return s.ctx }

func (s *subStream) Recv() (*pb.SubscribeRequest, error) {
	s.calls++
	if s.calls == 1 {
		return s.first, s.ferr
	}
	// a poll trigger is only read after the first sync went out (otherwise
	// the end of the stream races with the sender goroutine)
	select {
	case <-s.syncCh:
	case <-time.After(2 * time.Second):
	}
	return nil, io.EOF
}

func (s *subStream) Send(r *pb.SubscribeResponse) error {
	if r.GetSyncResponse() {
		if !s.synced {
			s.synced = true
			close(s.syncCh)
		}
		return errStop
	}
	return nil
}

// SObs is the observation of one Subscribe call.
type SObs struct {
	Res    string `json:"res"` // ok err panic hang
	Code   uint32 `json:"code"`
	Synced bool   `json:"synced"`
	Panic  string `json:"panic,omitempty"`
}

func runSub(q *Req) (*Req, SObs) {
	c := cache.New(q.Targets)
	for _, t := range q.Targets {
		c.GnmiUpdate(&pb.Notification{Timestamp: 1, Prefix: &pb.Path{Target: t},
			Update: []*pb.Update{{Path: &pb.Path{Elem: []*pb.PathElem{{Name: "a"}, {Name: "b"}}},
				Val: &pb.TypedValue{Value: &pb.TypedValue_IntVal{IntVal: 1}}}}})
	}
	var srv *subscribe.Server
	if q.Stats {
		srv, _ = subscribe.NewServer(c, subscribe.WithStats())
	} else {
		srv, _ = subscribe.NewServer(c)
	}
	c.SetClient(srv.Update)
	setupPanic := ""
	for i := range q.Setup {
		m := &pb.Notification{}
		wire(notiPB(&q.Setup[i]), m)
		if res, what := guard(func() { c.GnmiUpdate(m) }); res != "ok" {
			setupPanic = res + ": " + what
		}
	}
	ctx := context.Background()
	if q.Peer {
		ctx = peer.NewContext(ctx, &peer.Peer{Addr: &net.TCPAddr{IP: net.IPv4(127, 0, 0, 1), Port: 1}})
	}
	st := &subStream{ctx: ctx, syncCh: make(chan struct{})}
	seen := *q
	switch q.Recv {
	case "eof":
		st.ferr = io.EOF
	case "err":
		st.ferr = errRecv
	default:
		m := &pb.SubscribeRequest{}
		wire(reqPB(q), m)
		st.first = m
		// what the handler sees
		seen.Subs, seen.HasSubs = nil, nil
		if sl := m.GetSubscribe(); sl != nil {
			seen.Kind = "subscribe"
			seen.Prefix = pathAbs(sl.GetPrefix())
			seen.Mode = int32(sl.GetMode())
			seen.UpdatesOnly = sl.GetUpdatesOnly()
			for _, s := range sl.GetSubscription() {
				seen.Subs = append(seen.Subs, pathAbs(s.GetPath()))
				seen.HasSubs = append(seen.HasSubs, s.GetPath() != nil)
			}
		} else if m.GetPoll() != nil {
			seen.Kind = "poll"
		} else {
			seen.Kind = "none"
		}
	}
	// The walker and sender goroutines Subscribe spawns cannot be guarded.  The
	// request-dependent computations they perform (path.ToStrings of the prefix,
	// path.CompletePath per entry) are therefore first run here, under guard; a
	// panic there, or while relaying the setup notifications, is the observed
	// outcome and the RPC is not started.
	if setupPanic == "" && st.first != nil {
		sl := st.first.GetSubscribe()
		if res, what := guard(func() {
			path.ToStrings(sl.GetPrefix(), true)
			for _, sub := range sl.GetSubscription() {
				path.CompletePath(sl.GetPrefix(), sub.GetPath())
			}
		}); res != "ok" {
			setupPanic = "pre-flight of the walker's path computations: " + res + ": " + what
		}
	}
	if setupPanic != "" {
		return &seen, SObs{Res: "panic", Panic: setupPanic}
	}
	var err error
	res, what := guard(func() { err = srv.Subscribe(st) })
	o := SObs{Res: res, Panic: what, Synced: st.synced}
	if o.Res == "ok" && err != nil && !errors.Is(err, errStop) {
		o.Res = "err"
		o.Code = uint32(status.Code(err))
		if o.Code == uint32(codes.OK) {
			o.Code = uint32(codes.Unknown)
		}
	}
	return &seen, o
}

func subTerm(nm *vh.Names, q *Req, o SObs) string {
	var f string
	switch q.Recv {
	case "eof":
		f = "RecvEOF"
	case "err":
		f = "RecvErr"
	default:
		kind := map[string]string{"subscribe": "KSubscribe", "poll": "KPoll", "none": "KNone"}[q.Kind]
		subs := make([]string, len(q.Subs))
		for i, s := range q.Subs {
			if i < len(q.HasSubs) && !q.HasSubs[i] {
				s = nil
			}
			subs[i] = gOptPath(nm, s)
		}
		f = fmt.Sprintf("(RecvMsg (SubReq %s %s %s %s %s))", kind, gOptPath(nm, q.Prefix),
			gN(uint64(uint32(q.Mode))), vh.Bool(q.UpdatesOnly), vh.List(subs))
	}
	res := o.Res
	if res == "hang" {
		res = "panic"
	}
	return fmt.Sprintf("CSub (SEnv %s %s) %s %s %s %s", nm.Path(q.Targets), vh.Bool(q.Peer), f,
		gOclass(res), gN(uint64(o.Code)), vh.Bool(o.Synced))
}

// ---------------------------------------------------------------------------
// client receive path and CLI: a scripted gNMI stream under the real
// client/gnmi implementation

type fakeGNMI struct {
	pb.GNMIClient
	script []*pb.SubscribeResponse
}

type fakeSub struct {
	grpc.ClientStream
	script []*pb.SubscribeResponse
	pos    int
}

func (f *fakeGNMI) Subscribe(ctx context.Context, opts ...grpc.CallOption) (pb.GNMI_SubscribeClient, error) {
	return &fakeSub{script: f.script}, nil
}

func (s *fakeSub) Send(*pb.SubscribeRequest) error { return nil }
func (s *fakeSub) Recv() (*pb.SubscribeResponse, error) {
	if s.pos >= len(s.script) {
		return nil, io.EOF
	}
	r := s.script[s.pos]
	s.pos++
	if r == nil {
		return nil, errStream
	}
	return r, nil
}

var errStream = errors.New("harness: scripted stream failure")
func (s *fakeSub) CloseSend() error { return nil }

type fakeImpl struct{ *gclient.Client }

func (fakeImpl) Close() error { return nil }

var curScript []*pb.SubscribeResponse

func registerFake() {
	client.ResetRegisteredImpls()
	client.Register("c12", func(ctx context.Context, d client.Destination) (client.Impl, error) {
		return fakeImpl{gclient.VerifNewC12(&fakeGNMI{script: curScript})}, nil
	})
}

func script(ops []Op) ([]Op, []*pb.SubscribeResponse, []string) {
	var seen []Op
	var out []*pb.SubscribeResponse
	valid := map[string]bool{}
	for _, op := range ops {
		if op.K != "resp" || op.R == nil {
			continue
		}
		if op.R.K == "fail" {
			seen = append(seen, Op{K: "resp", R: &Resp{K: "fail"}})
			out = append(out, nil)
			continue
		}
		m := &pb.SubscribeResponse{}
		wire(respPB(op.R), m)
		abs := respAbs(m)
		seen = append(seen, Op{K: "resp", R: abs})
		out = append(out, m)
		if abs.N != nil {
			for _, u := range abs.N.Upd {
				collectJSON(u.Val, valid)
				if u.Dep != nil && json.Valid([]byte(u.Dep.B)) {
					valid[u.Dep.B] = true
				}
			}
		}
	}
	vs := make([]string, 0, len(valid))
	for s := range valid {
		vs = append(vs, s)
	}
	sort.Strings(vs)
	return seen, out, vs
}

func collectJSON(v TV, valid map[string]bool) {
	if (v.K == "json" || v.K == "jsonietf") && json.Valid([]byte(v.S)) {
		valid[v.S] = true
	}
	for _, e := range v.L {
		collectJSON(e, valid)
	}
}

func qtype(s string) client.Type {
	switch s {
	case "poll":
		return client.Poll
	case "stream":
		return client.Stream
	}
	return client.Once
}

func gQT(s string) string {
	return map[string]string{"once": "QOnce", "poll": "QPoll", "stream": "QStream"}[s]
}

// Ev is one notification handed to the user's handler.
type Ev struct {
	K string   `json:"k"` // connected update delete sync nil other
	P []string `json:"p,omitempty"`
}

// RObs is the observation of one client run.
type RObs struct {
	Res    string     `json:"res"`
	Panic  string     `json:"panic,omitempty"`
	Evs    []Ev       `json:"evs"`
	Leaves [][]string `json:"leaves"`
	Valid  []string   `json:"json_valid,omitempty"`
}

func runRecv(qt string, ops []Op) ([]Op, RObs) {
	seen, sc, valid := script(ops)
	curScript = sc
	c := client.New()
	var evs []Ev
	q := client.Query{Addrs: []string{"fake"}, Target: "t", Type: qtype(qt), Queries: []client.Path{{"*"}},
		NotificationHandler: func(n client.Notification) error {
			switch v := n.(type) {
			case client.Connected:
				evs = append(evs, Ev{K: "connected"})
			case client.Update:
				evs = append(evs, Ev{K: "update", P: v.Path}) // retained as handed over, read at the end
			case client.Delete:
				evs = append(evs, Ev{K: "delete", P: v.Path})
			case client.Sync:
				evs = append(evs, Ev{K: "sync"})
			case nil:
				evs = append(evs, Ev{K: "nil"})
			default:
				evs = append(evs, Ev{K: "other"})
			}
			return nil
		}}
	var err error
	res, what := guard(func() { err = c.Subscribe(context.Background(), q, "c12") })
	o := RObs{Res: res, Panic: what, Evs: evs, Valid: valid}
	if res == "ok" && err != nil {
		o.Res = "err"
	}
	if res != "hang" {
		guard(func() {
			for _, l := range c.Leaves() {
				o.Leaves = append(o.Leaves, append([]string{}, l.Path...))
			}
		})
	}
	return seen, o
}

func gEvent(nm *vh.Names, e Ev) string {
	switch e.K {
	case "connected":
		return "EConnected"
	case "update":
		return "(EUpdate " + nm.Path(e.P) + ")"
	case "delete":
		return "(EDelete " + nm.Path(e.P) + ")"
	case "sync":
		return "ESync"
	}
	return "ENil"
}

func gResps(nm *vh.Names, ops []Op) string {
	rs := make([]string, 0, len(ops))
	for _, op := range ops {
		rs = append(rs, gResp(nm, op.R))
	}
	return vh.List(rs)
}

func recvTerm(nm *vh.Names, qt string, ops []Op, o RObs) string {
	evs := make([]string, len(o.Evs))
	for i, e := range o.Evs {
		evs[i] = gEvent(nm, e)
	}
	res := o.Res
	if res == "hang" {
		res = "panic"
	}
	return fmt.Sprintf("CRecv %s %s %s %s %s %s", nm.Path(o.Valid), gQT(qt), gResps(nm, ops),
		gOclass(res), vh.List(evs), gPaths(nm, o.Leaves))
}

// DRec is one call of Config.Display, parsed.
type DRec struct {
	K      string     `json:"k"` // group line proto
	Leaves [][]string `json:"leaves,omitempty"`
	P      []string   `json:"p,omitempty"`
	Raw    string     `json:"raw,omitempty"`
}

// CObs is the observation of one cli.QueryDisplay call.
type CObs struct {
	Res   string   `json:"res"`
	Panic string   `json:"panic,omitempty"`
	Recs  []DRec   `json:"recs"`
	Valid []string `json:"json_valid,omitempty"`
}

var lineRE = regexp.MustCompile(`^( *)("(?:[^"\\]|\\.)*"): (.*)$`)

// parseGroup recovers the leaf positions from the text of a group display.
func parseGroup(txt string) [][]string {
	var stack []string
	leaves := [][]string{}
	for _, ln := range strings.Split(txt, "\n") {
		t := strings.TrimSpace(ln)
		if t == "{" || t == "" {
			continue
		}
		if t == "}" || t == "}," {
			if len(stack) > 0 {
				stack = stack[:len(stack)-1]
			}
			continue
		}
		m := lineRE.FindStringSubmatch(ln)
		if m == nil {
			leaves = append(leaves, []string{"?unparsed", ln})
			continue
		}
		key, err := strconv.Unquote(m[2])
		if err != nil {
			key = m[2]
		}
		if m[3] == "{" {
			stack = append(stack, key)
			continue
		}
		leaves = append(leaves, append(append([]string{}, stack...), key))
	}
	return leaves
}

func runCli(dt, qt string, withTS bool, ops []Op) ([]Op, CObs) {
	seen, sc, valid := script(ops)
	curScript = sc
	var recs []DRec
	cfg := &cli.Config{
		Delimiter:     "/",
		DisplayIndent: "  ",
		DisplayType:   dt,
		ClientTypes:   []string{"c12"},
		Count:         0,
	}
	if withTS {
		cfg.Timestamp = "raw"
	}
	if qt == "poll" {
		cfg.Count = 1
	}
	cfg.Display = func(b []byte) {
		s := string(b)
		switch dt {
		case "group", "g":
			recs = append(recs, DRec{K: "group", Leaves: parseGroup(s)})
		case "single", "s":
			p := s
			if i := strings.Index(s, ", "); i >= 0 {
				p = s[:i]
			}
			var ps []string
			if p != "" {
				ps = strings.Split(p, "/")
			}
			recs = append(recs, DRec{K: "line", P: ps})
		default:
			recs = append(recs, DRec{K: "proto"})
		}
	}
	q := client.Query{Addrs: []string{"fake"}, Target: "t", Type: qtype(qt), Queries: []client.Path{{"*"}}}
	var err error
	res, what := guard(func() { err = cli.QueryDisplay(context.Background(), q, cfg) })
	o := CObs{Res: res, Panic: what, Recs: recs, Valid: valid}
	if res == "ok" && err != nil {
		o.Res = "err"
	}
	return seen, o
}

func cliTerm(nm *vh.Names, dt, qt string, withTS bool, ops []Op, o CObs) string {
	recs := make([]string, len(o.Recs))
	for i, r := range o.Recs {
		switch r.K {
		case "group":
			recs[i] = "(DRGroup " + gPaths(nm, r.Leaves) + ")"
		case "line":
			recs[i] = "(DRLine " + nm.Path(r.P) + ")"
		default:
			recs[i] = "DRProto"
		}
	}
	gdt := map[string]string{"group": "DGroup", "single": "DSingle", "proto": "DProto"}[dt]
	if gdt == "" {
		gdt = "DUnknown"
	}
	res := o.Res
	if res == "hang" {
		res = "panic"
	}
	return fmt.Sprintf("CCli %s %s %s %s %s %s %s", nm.Path(o.Valid), gdt, gQT(qt), vh.Bool(withTS),
		gResps(nm, ops), gOclass(res), vh.List(recs))
}

// ---------------------------------------------------------------------------
// target manager: one received response at a time

// MObs is the observation of one manager.handleGNMIUpdate call.
type MObs struct {
	Res   string `json:"res"`
	Code  int    `json:"code"` // callback invoked: 0 none, 1 update, 2 sync
	Panic string `json:"panic,omitempty"`
}

func runMgr(ops []Op, noCB bool) ([]Op, []MObs) {
	var real []Op
	for _, op := range ops {
		if op.K == "resp" && op.R != nil && op.R.K != "fail" {
			real = append(real, op)
		}
	}
	seen, sc, _ := script(real)
	code := 0
	cm, err := connection.NewManager()
	if err != nil {
		vh.Die("connection manager: %v", err)
	}
	cfg := manager.Config{ConnectionManager: cm}
	if !noCB {
		cfg.Update = func(string, *pb.Notification) { code = 1 }
		cfg.Sync = func(string) { code = 2 }
	}
	m, err := manager.NewManager(cfg)
	if err != nil {
		vh.Die("manager: %v", err)
	}
	obs := make([]MObs, 0, len(sc))
	for _, r := range sc {
		code = 0
		var herr error
		res, what := guard(func() { herr = manager.VerifC12Handle(m, "t1", r) })
		o := MObs{Res: res, Panic: what, Code: code}
		if res == "ok" && herr != nil {
			o.Res = "err"
		}
		obs = append(obs, o)
	}
	return seen, obs
}

func mgrTerm(nm *vh.Names, ops []Op, obs []MObs, noCB bool) string {
	parts := make([]string, len(ops))
	for i, op := range ops {
		res := obs[i].Res
		if res == "hang" {
			res = "panic"
		}
		parts[i] = fmt.Sprintf("(%s, (%s, %s))", gResp(nm, op.R), gOclass(res), gN(uint64(obs[i].Code)))
	}
	return "CMgr " + vh.Bool(!noCB) + " " + vh.List(parts)
}

// ---------------------------------------------------------------------------
// sender side of Subscribe: every notification the cache feeds to the
// subscribe server is first post-processed here, under guard, exactly as the
// per-RPC sender goroutine does with each item of a subscriber's queue
// (MakeSubscribeResponse, isTargetDelete), and only then relayed to
// Server.Update.  (The sender goroutine itself cannot be guarded.)

// StItem is one fed notification and what the post-processing did with it.
type StItem struct {
	N     *Noti  `json:"n"`
	Dup   uint32 `json:"dup"`
	Res   string `json:"res"`
	Gone  bool   `json:"gone"`
	Panic string `json:"panic,omitempty"`
}

func runStream(targets []string, ops []Op) ([]Op, []StItem) {
	metadata.UnregisterServerNameMetadata()
	for _, typ := range []latency.StatType{latency.Avg, latency.Max, latency.Min} {
		metadata.UnregisterIntValue(latency.MetadataName(latWindow, typ))
	}
	now := int64(1000)
	cache.Now = func() time.Time { return time.Unix(0, now) }
	latency.Now = cache.Now
	c := cache.New(targets)
	srv, _ := subscribe.NewServer(c)
	var items []StItem
	k := uint32(0)
	c.SetClient(func(l *ctree.Leaf) {
		n, ok := l.Value().(*pb.Notification)
		if !ok {
			return
		}
		k++
		it := StItem{N: notiAbs(n), Dup: k % 2}
		var err error
		it.Res, it.Panic = guard(func() {
			_, err = srv.MakeSubscribeResponse(l.Value(), it.Dup)
			it.Gone = subscribe.VerifC12IsTargetDelete(l)
		})
		if it.Res == "ok" && err != nil {
			it.Res = "err"
		}
		if !cleanNoti(it.N) {
			return
		}
		items = append(items, it)
		if it.Res == "ok" {
			guard(func() { srv.Update(l) })
		}
	})
	var seen []Op
	for _, op := range ops {
		now += 10
		switch op.K {
		case "msg":
			if op.N == nil {
				continue
			}
			m := &pb.Notification{}
			wire(notiPB(op.N), m)
			seen = append(seen, Op{K: "msg", N: notiAbs(m)})
			guard(func() { c.GnmiUpdate(m) })
		case "refresh":
			seen = append(seen, op)
			guard(func() { c.UpdateMetadata() })
		case "remove":
			seen = append(seen, op)
			guard(func() { c.Remove(op.T) })
		case "reset":
			seen = append(seen, op)
			guard(func() { c.Reset(op.T) })
		}
	}
	return seen, items
}

func streamTerm(nm *vh.Names, items []StItem) string {
	parts := make([]string, len(items))
	for i, it := range items {
		res := it.Res
		if res == "hang" {
			res = "panic"
		}
		parts[i] = fmt.Sprintf("(%s, %s, (%s, %s))", gNotif(nm, it.N), gN(uint64(it.Dup)), gOclass(res), vh.Bool(it.Gone))
	}
	return "CStream " + vh.List(parts)
}

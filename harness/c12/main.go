// Harness for C12 (no message from a remote peer can crash a process).
//
// Four entry points are driven with wire-round-tripped messages under
// recover(): Cache.GnmiUpdate (+ Cache.UpdateMetadata as a last step),
// subscribe.Server.Subscribe, the gNMI client receive path under a caching
// client, and cli.QueryDisplay.  See /verif/docs/props/C12.md.
package main

import (
	"encoding/json"
	"flag"
	"fmt"
	"os"
	"strings"

	"github.com/openconfig/gnmi/zz_verif/vh"
)

type emitter struct {
	dir   string
	shard int
	cf    *vh.CaseFile
	meta  *vh.Meta
	limit int
}

func (e *emitter) flush() {
	if e.cf.Len() == 0 {
		return
	}
	if err := e.cf.Write(e.dir, e.shard, "Total.IngestModel Total.SubReqModel Total.ClientRecvModel Total.CliDisplayModel Total.C12Check", "case", "check_all"); err != nil {
		vh.Die("write: %v", err)
	}
	e.shard++
	e.cf = vh.NewCaseFile()
}

func (e *emitter) add(c Case) {
	// the case being run, for the orchestrator to report should the code under
	// test crash the process from a goroutine the harness cannot guard
	if b, err := json.Marshal(c); err == nil {
		os.WriteFile(e.dir+"/inflight.json", b, 0o644)
	}
	nm := e.cf.Names
	var term string
	nontrivial := false
	switch c.Kind {
	case "ingest":
		if len(c.Targets) == 0 {
			c.Targets = []string{"t1", "t2"}
		}
		io := IOpts{NoEvent: c.NoEvent, SrvName: c.SrvName, Latency: c.Latency}
		seen, obs := runIngest(c.Targets, io, c.Ops)
		c.Ops, c.Obs = seen, obs
		term = ingestTerm(nm, c.Targets, io, seen, obs)
		stored := false
		for _, o := range obs {
			e.meta.Hist("ingest:" + o.Res)
			if o.Refresh {
				e.meta.Hist("ingest:refresh")
			}
			for _, ls := range o.Dump {
				if len(ls) > 0 {
					stored = true
				}
			}
			if stored && o.Res != "ok" {
				nontrivial = true
			}
		}
	case "sub":
		var q *Req
		for _, op := range c.Ops {
			if op.K == "req" && op.Q != nil {
				q = op.Q
			}
		}
		if q == nil {
			return
		}
		seen, o := runSub(q)
		c.Ops, c.Obs = []Op{{K: "req", Q: seen}}, o
		term = subTerm(nm, seen, o)
		e.meta.Hist(fmt.Sprintf("sub:%s:%d", o.Res, o.Code))
		nontrivial = o.Res != "ok" || o.Synced
	case "recv":
		seen, o := runRecv(c.QT, c.Ops)
		c.Ops, c.Obs = seen, o
		term = recvTerm(nm, c.QT, seen, o)
		e.meta.Hist("recv:" + o.Res)
		nontrivial = len(o.Evs) > 1
	case "stream":
		if len(c.Targets) == 0 {
			c.Targets = []string{"t1", "t2"}
		}
		seen, items := runStream(c.Targets, c.Ops)
		c.Ops, c.Obs = seen, items
		term = streamTerm(nm, items)
		for _, it := range items {
			e.meta.Hist("stream:" + it.Res)
			if len(it.N.Del) > 0 {
				nontrivial = true
			}
			if it.Gone {
				e.meta.Hist("stream:target-gone")
			}
		}
	case "mgr":
		seen, obs := runMgr(c.Ops, c.NoEvent)
		c.Ops, c.Obs = seen, obs
		term = mgrTerm(nm, seen, obs, c.NoEvent)
		for _, o := range obs {
			e.meta.Hist("mgr:" + o.Res)
			if o.Code != 0 {
				nontrivial = true
			}
		}
	case "cli":
		seen, o := runCli(c.DT, c.QT, c.TS, c.Ops)
		c.Ops, c.Obs = seen, o
		term = cliTerm(nm, c.DT, c.QT, c.TS, seen, o)
		e.meta.Hist("cli:" + c.DT + ":" + o.Res)
		nontrivial = len(o.Recs) > 0 || o.Res != "ok"
	default:
		return
	}
	e.cf.Add(term, c)
	canon, _ := json.Marshal(struct {
		K, Q, D string
		T       bool
		O       []Op
	}{c.Kind, c.QT, fmt.Sprint(c.DT, c.SrvName, c.Latency), c.TS != c.NoEvent, c.Ops})
	e.meta.Count(c.Family, string(canon), nontrivial, map[string]interface{}{"family": c.Family, "kind": c.Kind, "ops": c.Ops, "obs": c.Obs})
	if e.cf.Len() >= e.limit {
		e.flush()
	}
}

func readCases(file string) []Case {
	b, err := os.ReadFile(file)
	if err != nil {
		vh.Die("%s: %v", file, err)
	}
	var cs []Case
	if err := json.Unmarshal(b, &cs); err != nil {
		var one Case
		if err2 := json.Unmarshal(b, &one); err2 != nil {
			vh.Die("%s unreadable: %v", file, err)
		}
		cs = []Case{one}
	}
	return cs
}

func main() {
	o := vh.ParseFlags()
	flag.Set("logtostderr", "true")
	flag.Set("stderrthreshold", "FATAL")
	if f, err := os.OpenFile(os.DevNull, os.O_WRONLY, 0); err == nil {
		os.Stderr = f
	}
	registerFake()
	meta := vh.NewMeta("corpus cases; a grid over the optional fields of one notification (prefix shape x path shape x value kind x atomic, update and delete) after a fixed three-leaf setup and followed by a metadata refresh; the same for Subscribe requests (prefix x mode x updates_only x subscription lists, with and without a gRPC peer) and for displayed responses (display type x query type x timestamps x prefix x path x value kind); seeded random message sequences for each entry point; byte-level mutations of valid encodings that still decode. Every message is marshalled and unmarshalled before use. distinct = distinct (kind, options, decoded message list); non-trivial = ingest: a rejected or crashing step on a non-empty cache; subscribe: an error or a sync; receive: at least one delivered notification beside Connected; cli: something displayed or an error")
	e := &emitter{dir: o.Out, cf: vh.NewCaseFile(), meta: meta, limit: 1200}

	if o.Replay != "" {
		for _, c := range readCases(o.Replay) {
			e.add(c)
		}
		e.flush()
		meta.Write(o.Out)
		os.Remove(o.Out + "/inflight.json")
		return
	}

	if dir := os.Getenv("VERIF_CORPUS"); dir != "" {
		ents, _ := os.ReadDir(dir)
		for _, en := range ents {
			if !strings.HasSuffix(en.Name(), ".json") {
				continue
			}
			for _, c := range readCases(dir + "/" + en.Name()) {
				c.Family = "corpus"
				e.add(c)
			}
		}
	}

	gridIngest(e.add)
	pairsIngest(e.add)
	encodingSequences(e.add, o.Thorough())
	metaOptsIngest(e.add)
	longFamilies(e.add)
	extremesIngest(e.add)
	streamDeletes(e.add)
	extremeResps(e.add)
	gridSub(e.add, o.Thorough())
	gridCli(e.add)

	r := vh.NewRand(o.Seed)
	scale := 1
	if o.Thorough() {
		scale = 12
	}
	g := &gen{r: r.Fork()}
	for i := 0; i < 800*scale; i++ {
		e.add(g.randomIngest())
	}
	g = &gen{r: r.Fork()}
	for i := 0; i < 500*scale; i++ {
		e.add(g.lookalikeIngest())
	}
	g = &gen{r: r.Fork()}
	for i := 0; i < 150*scale; i++ {
		e.add(Case{Family: "recv-lookalike", Kind: "recv", QT: []string{"once", "poll", "stream"}[g.r.Intn(3)], Ops: g.lookalikeResps()})
		e.add(Case{Family: "cli-lookalike", Kind: "cli", DT: []string{"group", "single"}[g.r.Intn(2)], QT: []string{"once", "stream"}[g.r.Intn(2)], TS: g.r.Chance(1, 3), Ops: g.lookalikeResps()})
	}
	g = &gen{r: r.Fork()}
	for i := 0; i < 150*scale; i++ {
		e.add(g.emptyNameIngest())
	}
	// the same random / look-alike message sequences, watched from the sender side
	g = &gen{r: r.Fork()}
	for i := 0; i < 250*scale; i++ {
		c := g.randomIngest()
		if i%2 == 1 {
			c = g.lookalikeIngest()
		}
		c.Family, c.Kind, c.SrvName, c.Latency, c.NoEvent = "stream-random", "stream", false, false, false
		if g.r.Chance(1, 3) {
			c.Ops = append(c.Ops, Op{K: []string{"remove", "reset"}[g.r.Intn(2)], T: "t1"})
		}
		e.add(c)
	}
	g = &gen{r: r.Fork()}
	for i := 0; i < 300*scale; i++ {
		e.add(g.randomSub())
	}
	g = &gen{r: r.Fork()}
	for i := 0; i < 150*scale; i++ {
		e.add(Case{Family: "mgr-random", Kind: "mgr", NoEvent: i%3 == 2, Ops: g.resps(true)}) // NoEvent: manager without callbacks
	}
	g = &gen{r: r.Fork()}
	for i := 0; i < 700*scale; i++ {
		e.add(g.randomRecv())
	}
	g = &gen{r: r.Fork()}
	for i := 0; i < 700*scale; i++ {
		e.add(g.randomCli())
	}
	// mutation stream
	g = &gen{r: r.Fork()}
	tried, kept := 0, 0
	for kept < 400*scale && tried < 20000*scale {
		tried++
		n := g.mutatedNoti()
		if n == nil {
			continue
		}
		kept++
		ops := append(setupSteps(), Op{K: "msg", N: n})
		if g.r.Chance(1, 2) {
			ops = append(ops, Op{K: "refresh"})
		}
		e.add(Case{Family: "ingest-mutated", Kind: "ingest", Targets: []string{"t1", "t2"}, Ops: ops})
	}
	meta.Extra["mutated_notifications_tried"] = tried
	meta.Extra["mutated_notifications_kept"] = kept
	tried, kept = 0, 0
	for kept < 300*scale && tried < 20000*scale {
		tried++
		rp := g.mutatedResp()
		if rp == nil {
			continue
		}
		kept++
		ops := []Op{{K: "resp", R: rp}, {K: "resp", R: &Resp{K: "sync"}}, {K: "resp", R: rp}}
		if g.r.Chance(1, 2) {
			e.add(Case{Family: "recv-mutated", Kind: "recv", QT: "stream", Ops: ops})
		} else {
			e.add(Case{Family: "cli-mutated", Kind: "cli", DT: "group", QT: "stream", Ops: ops})
		}
	}
	meta.Extra["mutated_responses_tried"] = tried
	meta.Extra["mutated_responses_kept"] = kept
	e.flush()
	if err := meta.Write(o.Out); err != nil {
		vh.Die("meta: %v", err)
	}
	os.Remove(o.Out + "/inflight.json")
}

// Generators: a grid over the optional fields of a single message, seeded
// random sequences, and a stream of byte-level mutations of valid encodings
// that still decode.
package main

import (
	"fmt"
	"math"
	"strings"

	"google.golang.org/protobuf/proto"

	pb "github.com/openconfig/gnmi/proto/gnmi"
	"github.com/openconfig/gnmi/zz_verif/vh"
)

var f64one = math.Float64bits(1.0)
var f64two = math.Float64bits(2.5)

func names(ns ...string) []Elem {
	es := make([]Elem, len(ns))
	for i, n := range ns {
		es[i] = Elem{Name: n}
	}
	return es
}

// value kinds, every arm of the oneof plus absent / unset
func valuePool() []TV {
	return []TV{
		{K: "nil"}, {K: "unset"},
		{K: "str", S: "x"}, {K: "str", S: "y"}, {K: "str", S: ""},
		{K: "int", I: 1}, {K: "int", I: -7},
		{K: "uint", U: 3},
		{K: "bool", B: true}, {K: "bool", B: false},
		{K: "bytes", S: "ab"},
		{K: "float", U: uint64(math.Float32bits(1.5))},
		{K: "double", U: f64one}, {K: "double", U: f64two}, {K: "double", U: 0},
		{K: "decimal", I: 314, P: 2},
		{K: "leaflist", L: []TV{{K: "int", I: 1}, {K: "str", S: "x"}}},
		{K: "leaflist"},
		{K: "leaflist", L: []TV{{K: "double", U: f64one}, {K: "any"}}},
		{K: "leaflist", L: []TV{{K: "unset"}}},
		{K: "any"},
		{K: "json", S: `{"a":1}`}, {K: "json", S: `{bad`},
		{K: "jsonietf", S: `[1,2]`}, {K: "jsonietf", S: ``},
		{K: "ascii", S: "txt"},
		{K: "proto", S: "pb"},
	}
}

// values value.ToScalar accepts
func goodValues() []TV {
	return []TV{
		{K: "str", S: "x"}, {K: "int", I: 1}, {K: "uint", U: 3}, {K: "bool", B: true}, {K: "bytes", S: "ab"},
		{K: "float", U: uint64(math.Float32bits(1.5))}, {K: "double", U: f64one}, {K: "decimal", I: 314, P: 2},
		{K: "leaflist", L: []TV{{K: "int", I: 1}, {K: "str", S: "x"}}}, {K: "leaflist"},
		{K: "json", S: `{"a":1}`}, {K: "jsonietf", S: `[1,2]`},
	}
}

// the short pool used by the grid (one representative per behaviour class)
func gridValues() []TV {
	return []TV{
		{K: "nil"}, {K: "unset"}, {K: "str", S: "x"}, {K: "int", I: 1}, {K: "bool", B: true},
		{K: "double", U: f64one}, {K: "json", S: `{"a":1}`},
		{K: "leaflist", L: []TV{{K: "int", I: 1}}}, {K: "bytes", S: "ab"},
	}
}

func gridPrefixes() []*GPath {
	return []*GPath{
		nil,
		{Target: "t1"},
		{Target: "t1", Elems: names("a")},
		{Target: "t1", Elems: names("meta")},
		{Target: "t1", Element: []string{"a"}},
		{Target: "t1", Origin: "o"},
		{Target: ""},
		{Target: "tx"},
		{Target: "t1", Elems: names("meta", "sync")},
	}
}

func gridPaths() []*GPath {
	return []*GPath{
		nil,
		{},
		{Elems: names("a")},
		{Elems: names("b")},
		{Elems: names("meta")},
		{Elems: names("meta", "sync")},
		{Elems: names("meta", "connectError")},
		{Elems: names("meta", "targetLeaves")},
		{Elems: names("sync")},
		{Element: []string{"a", "b"}},
		{Elems: []Elem{{Name: "a", Keys: map[string]string{"k": "v"}}, {Name: "b"}}},
		{Origin: "o2"},
		{Elems: names("*")},
	}
}

// setup stores a double at t1:a, an int at t1:c/d and a string at t2:a
func setupSteps() []Op {
	return []Op{
		{K: "msg", N: &Noti{TS: 1, Prefix: &GPath{Target: "t1"}, Upd: []Upd{{Path: &GPath{Elems: names("a")}, Val: TV{K: "double", U: f64one}}}}},
		{K: "msg", N: &Noti{TS: 1, Prefix: &GPath{Target: "t1"}, Upd: []Upd{{Path: &GPath{Elems: names("c", "d")}, Val: TV{K: "int", I: 4}}}}},
		{K: "msg", N: &Noti{TS: 1, Prefix: &GPath{Target: "t2"}, Upd: []Upd{{Path: &GPath{Elems: names("a")}, Val: TV{K: "str", S: "s"}}}}},
	}
}

func gridIngest(emit func(Case)) {
	targets := []string{"t1", "t2"}
	// grid messages are applied six at a time to one cache after the setup
	// (later messages of a group meet whatever the earlier ones stored)
	var group []Op
	flush := func() {
		if len(group) == 0 {
			return
		}
		ops := append(setupSteps(), group...)
		ops = append(ops, Op{K: "refresh"})
		emit(Case{Family: "ingest-grid", Kind: "ingest", Targets: targets, Ops: ops})
		group = nil
	}
	add := func(n *Noti) {
		group = append(group, Op{K: "msg", N: n})
		if len(group) == 6 {
			flush()
		}
	}
	ts := int64(2)
	for _, v := range gridValues() {
		for _, at := range []bool{false, true} {
			for _, pf := range gridPrefixes() {
				for _, ph := range gridPaths() {
					ts++
					add(&Noti{TS: 2 + ts%3, Prefix: pf, Atomic: at, Upd: []Upd{{Path: ph, Val: v}}})
				}
			}
		}
	}
	flush()
	for _, at := range []bool{false, true} {
		for _, pf := range gridPrefixes() {
			for _, ph := range gridPaths() {
				if ph != nil {
					add(&Noti{TS: 2, Prefix: pf, Atomic: at, Del: []GPath{*ph}})
					flush()
				}
			}
		}
	}
	// wildcard deletes against an empty cache (DESIGN 7.5) and empty messages
	for _, ph := range gridPaths() {
		if ph == nil {
			continue
		}
		n := &Noti{TS: 2, Prefix: &GPath{Target: "t1"}, Del: []GPath{*ph}}
		emit(Case{Family: "ingest-empty-cache", Kind: "ingest", Targets: targets, Ops: []Op{{K: "msg", N: n}, {K: "refresh"}}})
	}
	emit(Case{Family: "ingest-empty-cache", Kind: "ingest", Targets: targets, Ops: []Op{{K: "msg", N: &Noti{TS: 2, Prefix: &GPath{Target: "t1"}}}}})
	emit(Case{Family: "ingest-empty-cache", Kind: "ingest", Targets: targets, Ops: []Op{{K: "msg", N: &Noti{TS: 2, Prefix: &GPath{Target: "t1"}, Atomic: true}}}})
}

type gen struct{ r *vh.Rand }

var namePool = []string{"a", "b", "c", "meta", "sync", "connected", "connectError", "connectedAddress",
	"targetLeaves", "latestTimestamp", "serverName", "*", ""}

func (g *gen) name() string {
	r := g.r
	switch r.Pick(12, 4, 3) {
	case 0:
		return namePool[r.Intn(3)]
	case 1:
		return "meta"
	}
	return namePool[r.Intn(len(namePool))]
}

func (g *gen) path(allowNil bool, emptyNames bool) *GPath {
	r := g.r
	if allowNil && r.Chance(1, 10) {
		return nil
	}
	p := &GPath{}
	n := r.Pick(2, 5, 5, 2)
	if r.Chance(1, 8) {
		for i := 0; i < n; i++ {
			p.Element = append(p.Element, g.cleanName(emptyNames))
		}
		return p
	}
	for i := 0; i < n; i++ {
		e := Elem{Name: g.cleanName(emptyNames)}
		if i > 0 && p.Elems[0].Name == "meta" && i == 1 && r.Chance(2, 3) {
			e.Name = namePool[3+r.Intn(8)]
		}
		if r.Chance(1, 8) {
			e.Keys = map[string]string{"k": []string{"v", "w"}[r.Intn(2)]}
			if r.Chance(1, 3) {
				e.Keys["j"] = "u"
			}
		}
		p.Elems = append(p.Elems, e)
	}
	if r.Chance(1, 12) {
		p.Origin = "o2"
	}
	if r.Chance(1, 12) {
		p.Target = "tp" // legal but ignored on anything but a prefix
	}
	if emptyNames && len(p.Elems) > 0 && r.Chance(1, 12) {
		p.Elems[r.Intn(len(p.Elems))].Name = []string{"x/y", "a b", "[k=v]", "..", "meta/sync"}[r.Intn(5)]
	}
	if r.Chance(1, 25) {
		p = &GPath{Elems: names("meta", "latency", "window", "10ns", []string{"avg", "max", "min"}[r.Intn(3)])}
	}
	return p
}

func (g *gen) cleanName(emptyNames bool) string {
	for {
		n := g.name()
		if n == "" && !emptyNames {
			continue
		}
		return n
	}
}

func (g *gen) prefix(targets []string) *GPath {
	r := g.r
	if r.Chance(1, 25) {
		return nil
	}
	p := &GPath{}
	switch r.Pick(30, 2, 2) {
	case 0:
		p.Target = targets[r.Intn(len(targets))]
	case 1:
		p.Target = "tx"
	}
	if r.Chance(1, 8) {
		p.Origin = "o"
	}
	switch r.Pick(6, 3, 1) {
	case 1:
		p.Elems = names(g.cleanName(true))
	case 2:
		p.Element = []string{g.cleanName(true)}
	}
	return p
}

func (g *gen) value() TV {
	pool := valuePool()
	r := g.r
	switch r.Pick(3, 3, 6) {
	case 0:
		return TV{K: "nil"}
	case 1:
		return pool[12+r.Intn(3)] // doubles
	}
	return pool[r.Intn(len(pool))]
}

func (g *gen) noti(targets []string, ts int64) *Noti {
	r := g.r
	n := &Noti{TS: ts, Prefix: g.prefix(targets), Atomic: r.Chance(1, 7)}
	nu := r.Pick(2, 10, 4, 2)
	nd := r.Pick(10, 3, 1)
	for i := 0; i < nu; i++ {
		u := Upd{Path: g.path(true, true), Val: g.value()}
		if r.Chance(1, 10) {
			u.Dep = &Dep{Enc: int32(r.Intn(3)), B: []string{`{"a":1}`, "ab", ""}[r.Intn(3)]}
		}
		n.Upd = append(n.Upd, u)
	}
	for i := 0; i < nd; i++ {
		n.Del = append(n.Del, *g.path(false, true))
	}
	return n
}

// emptyNameIngest: a cache in which a target is registered under the empty
// name (outside the property; the model's joinPrefixAndPath panic is compared)
func (g *gen) emptyNameIngest() Case {
	r := g.r
	targets := []string{"", "t1"}
	c := Case{Family: "ingest-emptyname", Kind: "ingest", Targets: targets}
	k := 1 + r.Intn(4)
	for i := 0; i < k; i++ {
		n := g.noti(targets, int64(1+i))
		if r.Chance(2, 3) {
			pf := &GPath{}
			switch r.Pick(4, 2, 2) {
			case 1:
				pf.Origin = "o"
			case 2:
				pf.Elems = names(g.cleanName(true))
			}
			n.Prefix = pf
		}
		c.Ops = append(c.Ops, Op{K: "msg", N: n})
	}
	return c
}

func (g *gen) randomIngest() Case {
	r := g.r
	targets := []string{"t1", "t2"}
	c := Case{Family: "ingest-random", Kind: "ingest", Targets: targets, NoEvent: r.Chance(1, 3),
		SrvName: r.Chance(1, 3), Latency: r.Chance(1, 3)}
	k := 2 + r.Intn(7)
	ts := int64(1 + r.Intn(3))
	var last *Noti
	for i := 0; i < k; i++ {
		switch r.Pick(5, 2, 1) {
		case 0:
			ts += int64(r.Intn(2))
		case 1:
			ts -= int64(r.Intn(2))
		}
		n := g.noti(targets, ts)
		if last != nil && r.Chance(1, 6) {
			// same message again (equal timestamp, equal content: stale), or with another value
			cp := *last
			cp.Upd = append([]Upd{}, last.Upd...)
			if len(cp.Upd) > 0 && r.Chance(1, 2) {
				cp.Upd[0].Val = g.value()
			}
			if r.Chance(1, 2) {
				cp.TS = ts
			}
			n = &cp
		}
		last = n
		c.Ops = append(c.Ops, Op{K: "msg", N: n})
	}
	if r.Chance(2, 3) {
		c.Ops = append(c.Ops, Op{K: "refresh"})
	}
	return c
}

// ---------------------------------------------------------------------------
// sizes around every constant of the anchored code (path.ToStrings' result
// capacity maxPathLen = 20, the errC capacity 3, ...) and well beyond the
// sizes the other families use

// longElems: n elements e0..; keysOnLast[i] keys on the i-th of the last elements
func longElems(n int, keysOnLast ...int) []Elem {
	es := make([]Elem, n)
	for i := range es {
		es[i] = Elem{Name: fmt.Sprintf("e%d", i)}
	}
	for i, k := range keysOnLast {
		j := n - len(keysOnLast) + i
		if j < 0 || k == 0 {
			continue
		}
		es[j].Keys = map[string]string{}
		for x := 0; x < k; x++ {
			// key names sort differently from insertion order
			es[j].Keys[fmt.Sprintf("k%02d", (x*7)%k)] = fmt.Sprintf("v%d", x)
		}
	}
	return es
}

func longNames(n int) []string {
	out := make([]string, n)
	for i := range out {
		out[i] = fmt.Sprintf("e%d", i)
	}
	return out
}

func intList(n int) TV {
	v := TV{K: "leaflist"}
	for i := 0; i < n; i++ {
		v.L = append(v.L, TV{K: "int", I: int64(i % 3)})
	}
	return v
}

func deepJSON(depth int) string {
	return strings.Repeat("[", depth) + "1" + strings.Repeat("]", depth)
}

// longPaths: path shapes whose index strings end below, at and above 20
func longPaths() []*GPath {
	var out []*GPath
	for _, n := range []int{17, 18, 19, 20, 21, 24} {
		out = append(out, &GPath{Elems: longElems(n)})
		for _, ks := range [][]int{{1}, {2}, {3}, {2, 2}, {1, 2, 3}} {
			out = append(out, &GPath{Elems: longElems(n, ks...)})
		}
	}
	for _, k := range []int{1, 2, 3, 18, 19, 20, 21, 25} {
		out = append(out, &GPath{Elems: longElems(1, k)}, &GPath{Elems: longElems(3, k)})
	}
	for _, n := range []int{19, 20, 21, 22} {
		out = append(out, &GPath{Element: longNames(n)})
	}
	return out
}

func longFamilies(emit func(Case)) {
	targets := []string{"t1", "t2"}
	t1 := &GPath{Target: "t1"}
	iv := TV{K: "int", I: 1}
	// ingest: one long path per cache: update, update again, wildcard delete under it, refresh
	for i, ph := range longPaths() {
		c := Case{Family: "ingest-long", Kind: "ingest", Targets: targets, NoEvent: i%2 == 1}
		del := GPath{Elems: append(append([]Elem{}, ph.Elems...), Elem{Name: "*"})}
		if len(ph.Elems) == 0 {
			del = GPath{Element: ph.Element}
		}
		c.Ops = []Op{
			{K: "msg", N: &Noti{TS: 1, Prefix: t1, Upd: []Upd{{Path: ph, Val: iv}}}},
			{K: "msg", N: &Noti{TS: 2, Prefix: t1, Upd: []Upd{{Path: ph, Val: TV{K: "int", I: 2}}}}},
			{K: "msg", N: &Noti{TS: 3, Prefix: &GPath{Target: "t1", Origin: "o"}, Upd: []Upd{{Path: ph, Val: iv}}}},
			{K: "msg", N: &Noti{TS: 4, Prefix: t1, Del: []GPath{del}}},
			{K: "msg", N: &Noti{TS: 5, Prefix: t1, Atomic: true, Upd: []Upd{{Path: ph, Val: iv}}}},
			{K: "refresh"},
		}
		emit(c)
	}
	// long prefixes (19..22 names, Elem and deprecated Element) plus a short or keyed path
	for _, n := range []int{18, 19, 20, 21, 22} {
		for _, ph := range []*GPath{nil, {Elems: names("x")}, {Elems: longElems(1, 2)}, {Elems: longElems(2, 3)}, {Element: []string{"x", "y"}}} {
			for _, pf := range []*GPath{{Target: "t1", Elems: longElems(n)}, {Target: "t1", Origin: "o", Elems: longElems(n, 2)}, {Target: "t1", Element: longNames(n)}} {
				emit(Case{Family: "ingest-long", Kind: "ingest", Targets: targets, Ops: []Op{
					{K: "msg", N: &Noti{TS: 1, Prefix: pf, Upd: []Upd{{Path: ph, Val: iv}}}},
					{K: "msg", N: &Noti{TS: 2, Prefix: pf, Atomic: true, Upd: []Upd{{Path: ph, Val: iv}}}},
				}})
			}
		}
	}
	// many updates / deletes in one notification, long leaf-lists, deep JSON
	for _, nu := range []int{0, 1, 2, 50} {
		for _, nd := range []int{0, 1, 2, 50} {
			n := &Noti{TS: 2, Prefix: t1}
			for i := 0; i < nu; i++ {
				n.Upd = append(n.Upd, Upd{Path: &GPath{Elems: names("m", fmt.Sprintf("u%d", i%40))}, Val: TV{K: "int", I: int64(i)}})
			}
			for i := 0; i < nd; i++ {
				n.Del = append(n.Del, GPath{Elems: names("m", fmt.Sprintf("u%d", (i*3)%45))})
			}
			emit(Case{Family: "ingest-long", Kind: "ingest", Targets: targets, Ops: []Op{
				{K: "msg", N: &Noti{TS: 1, Prefix: t1, Upd: []Upd{{Path: &GPath{Elems: names("m", "u3")}, Val: iv}}}},
				{K: "msg", N: n}, {K: "refresh"}}})
		}
	}
	lists := []TV{intList(0), intList(1), intList(99), intList(100), {K: "json", S: deepJSON(300)}, {K: "jsonietf", S: deepJSON(300)},
		{K: "leaflist", L: []TV{intList(100), intList(1)}}}
	for i, v := range lists {
		for j, w := range lists {
			emit(Case{Family: "ingest-long", Kind: "ingest", Targets: targets, NoEvent: (i+j)%2 == 1, Ops: []Op{
				{K: "msg", N: &Noti{TS: 1, Prefix: t1, Upd: []Upd{{Path: &GPath{Elems: names("l")}, Val: v}}}},
				{K: "msg", N: &Noti{TS: 2, Prefix: t1, Upd: []Upd{{Path: &GPath{Elems: names("l")}, Val: w}}}},
			}})
		}
	}

	// Subscribe: long prefixes / entry paths, 0 / 1 / 30 entries, relayed long notifications first
	lp := longPaths()
	for i, ph := range lp {
		for _, mode := range []int32{0, 1, 2} {
			if (i+int(mode))%2 == 0 && mode != 0 {
				continue
			}
			q := &Req{Recv: "msg", Kind: "subscribe", Prefix: &GPath{Target: "t1"}, Mode: mode, Peer: true, Stats: i%2 == 0,
				Targets: targets, Subs: []*GPath{ph}, HasSubs: []bool{true},
				Setup: []Noti{{TS: 1, Prefix: t1, Upd: []Upd{{Path: ph, Val: iv}}}}}
			emit(Case{Family: "sub-long", Kind: "sub", Ops: []Op{{K: "req", Q: q}}})
		}
	}
	for _, n := range []int{18, 19, 20, 21, 22} {
		for _, mode := range []int32{0, 1} {
			for _, pf := range []*GPath{{Target: "t1", Elems: longElems(n)}, {Target: "t1", Elems: longElems(n, 2)}, {Target: "*", Element: longNames(n)}} {
				q := &Req{Recv: "msg", Kind: "subscribe", Prefix: pf, Mode: mode, Peer: true, Targets: targets,
					Subs: []*GPath{{Elems: longElems(1, 2)}, {}, {Elems: longElems(2, 3)}}, HasSubs: []bool{true, true, true},
					Setup: []Noti{{TS: 1, Prefix: pf, Upd: []Upd{{Path: &GPath{Elems: longElems(1, 2)}, Val: iv}}}}}
				if pf.Target == "*" {
					q.Setup = nil
				}
				emit(Case{Family: "sub-long", Kind: "sub", Ops: []Op{{K: "req", Q: q}}})
			}
		}
	}
	for _, ns := range []int{0, 1, 30} {
		for _, mode := range []int32{0, 1, 2} {
			q := &Req{Recv: "msg", Kind: "subscribe", Prefix: &GPath{Target: "t1"}, Mode: mode, Peer: true, Targets: targets}
			for i := 0; i < ns; i++ {
				q.Subs = append(q.Subs, &GPath{Elems: names("a", fmt.Sprintf("s%d", i%7))})
				q.HasSubs = append(q.HasSubs, i%11 != 5)
			}
			emit(Case{Family: "sub-long", Kind: "sub", Ops: []Op{{K: "req", Q: q}}})
		}
	}

	// responses: long paths / prefixes, 50 updates, long leaf-lists, deep JSON (typed and deprecated)
	var big []Upd
	for i := 0; i < 50; i++ {
		big = append(big, Upd{Path: &GPath{Elems: names("m", fmt.Sprintf("u%d", i%40))}, Val: TV{K: "int", I: int64(i)}})
	}
	var bigDel []GPath
	for i := 0; i < 50; i++ {
		bigDel = append(bigDel, GPath{Elems: names("m", fmt.Sprintf("u%d", (i*3)%45))})
	}
	var scripts [][]Op
	for i, ph := range lp {
		if i%2 == 1 {
			continue
		}
		scripts = append(scripts, []Op{
			{K: "resp", R: &Resp{K: "update", N: &Noti{TS: 1, Prefix: &GPath{Target: "t"}, Upd: []Upd{{Path: ph, Val: iv}}}}},
			{K: "resp", R: &Resp{K: "sync"}},
			{K: "resp", R: &Resp{K: "update", N: &Noti{TS: 2, Prefix: &GPath{Target: "t", Elems: longElems(19, 2)}, Upd: []Upd{{Path: ph, Val: iv}}, Del: []GPath{*ph}}}},
		})
	}
	scripts = append(scripts,
		[]Op{{K: "resp", R: &Resp{K: "update", N: &Noti{TS: 1, Prefix: &GPath{Target: "t"}, Upd: big}}}, {K: "resp", R: &Resp{K: "sync"}},
			{K: "resp", R: &Resp{K: "update", N: &Noti{TS: 2, Prefix: &GPath{Target: "t"}, Del: bigDel}}}},
		[]Op{{K: "resp", R: &Resp{K: "sync"}}, {K: "resp", R: &Resp{K: "update", N: &Noti{TS: 1, Prefix: &GPath{Target: "t"}, Upd: big, Del: bigDel}}}})
	for _, v := range lists {
		scripts = append(scripts, []Op{
			{K: "resp", R: &Resp{K: "update", N: &Noti{TS: 1, Prefix: &GPath{Target: "t"}, Upd: []Upd{{Path: &GPath{Elems: names("l")}, Val: v}}}}},
			{K: "resp", R: &Resp{K: "sync"}},
			{K: "resp", R: &Resp{K: "update", N: &Noti{TS: 2, Prefix: &GPath{Target: "t"}, Upd: []Upd{{Path: &GPath{Elems: names("l")}, Val: TV{K: "nil"}, Dep: &Dep{Enc: 0, B: deepJSON(300)}}}}}},
		})
	}
	for i, sc := range scripts {
		emit(Case{Family: "recv-long", Kind: "recv", QT: []string{"once", "poll", "stream"}[i%3], Ops: sc})
		emit(Case{Family: "cli-long", Kind: "cli", DT: []string{"group", "single", "proto"}[i%3], QT: []string{"stream", "once"}[i%2], TS: i%4 == 0, Ops: sc})
		if i%3 == 0 {
			emit(Case{Family: "cli-long", Kind: "cli", DT: "group", QT: "stream", Ops: sc})
			emit(Case{Family: "mgr-long", Kind: "mgr", Ops: sc})
		}
	}
}

// ---------------------------------------------------------------------------
// sender side: leaves stored with every path encoding (Elem, deprecated
// Element, mixed, keyed, origin in prefix or path, atomic under element-less /
// Elem / Element prefixes, literal "*"), then deleted in every way, then the
// target removed / reset: what the cache queues for a STREAM subscriber

func streamDeletes(emit func(Case)) {
	targets := []string{"t1", "t2"}
	iv := TV{K: "int", I: 1}
	type leaf struct {
		pf, ph *GPath
		atomic bool
	}
	t1 := func() *GPath { return &GPath{Target: "t1"} }
	leaves := []leaf{
		{t1(), &GPath{Elems: names("a", "b")}, false},
		{t1(), &GPath{Element: []string{"a", "b"}}, false},
		{&GPath{Target: "t1", Element: []string{"p"}}, &GPath{Element: []string{"x"}}, false},
		{&GPath{Target: "t1", Elems: names("p")}, &GPath{Element: []string{"x"}}, false},
		{&GPath{Target: "t1", Element: []string{"p"}}, &GPath{Elems: names("x")}, false},
		{&GPath{Target: "t1", Element: []string{"p"}}, nil, false},
		{t1(), &GPath{Elems: longElems(2, 2)}, false},
		{&GPath{Target: "t1", Origin: "o"}, &GPath{Elems: names("a")}, false},
		{&GPath{Target: "t1", Origin: "o"}, &GPath{Element: []string{"a"}}, false},
		{t1(), &GPath{Origin: "o2", Elems: names("a")}, false},
		{t1(), &GPath{Origin: "o2", Element: []string{"a"}}, false},
		{&GPath{Target: "t1", Origin: "o"}, &GPath{Elems: names("z")}, true},
		{&GPath{Target: "t1", Origin: "o"}, nil, true},
		{&GPath{Target: "t1", Elems: names("c")}, &GPath{Elems: names("z")}, true},
		{&GPath{Target: "t1", Element: []string{"c"}}, &GPath{Elems: names("z")}, true},
		{t1(), &GPath{Elems: names("*")}, false},
		{t1(), &GPath{Element: []string{"*"}}, false},
		{&GPath{Target: "t1", Origin: "*"}, nil, true},
		{t1(), &GPath{Elems: longElems(21)}, false},
		{t1(), &GPath{Element: longNames(21)}, false},
	}
	dels := func(l leaf) []Noti {
		var out []Noti
		if l.ph != nil && !l.atomic {
			out = append(out, Noti{TS: 5, Prefix: l.pf, Del: []GPath{*l.ph}})
		}
		out = append(out,
			Noti{TS: 5, Prefix: l.pf, Del: []GPath{{}}},
			Noti{TS: 5, Prefix: &GPath{Target: "t1"}, Del: []GPath{{Elems: names("*")}}},
			Noti{TS: 5, Prefix: &GPath{Target: "t1"}, Del: []GPath{{Element: []string{"*"}}}},
			Noti{TS: 5, Prefix: &GPath{Target: "t1", Origin: l.pf.Origin}, Del: []GPath{{}}},
			Noti{TS: 5, Prefix: &GPath{Target: "t1"}, Del: []GPath{{Elems: names("*", "*")}, {Elems: names("*")}}})
		return out
	}
	for _, l := range leaves {
		store := Op{K: "msg", N: &Noti{TS: 1, Prefix: l.pf, Atomic: l.atomic, Upd: []Upd{{Path: l.ph, Val: iv}}}}
		for i, d := range dels(l) {
			d := d
			ops := []Op{store, {K: "msg", N: &d}}
			switch i % 3 {
			case 0:
				ops = append(ops, Op{K: "remove", T: "t1"})
			case 1:
				ops = append(ops, store, Op{K: "reset", T: "t1"})
			case 2:
				ops = append(ops, Op{K: "refresh"})
			}
			emit(Case{Family: "stream-deletes", Kind: "stream", Targets: targets, Ops: ops})
		}
	}
	// everything stored at once, then one delete of the root
	var all []Op
	for i, l := range leaves {
		if i == 1 || i == 8 || i == 10 || i == 16 {
			continue // same index path as a neighbour in the other encoding
		}
		all = append(all, Op{K: "msg", N: &Noti{TS: 1, Prefix: l.pf, Atomic: l.atomic, Upd: []Upd{{Path: l.ph, Val: iv}}}})
	}
	for _, d := range []Noti{{TS: 5, Prefix: &GPath{Target: "t1"}, Del: []GPath{{}}}, {TS: 5, Prefix: &GPath{Target: "t1"}, Del: []GPath{{Elems: names("*")}}}} {
		d := d
		emit(Case{Family: "stream-deletes", Kind: "stream", Targets: targets, Ops: append(append([]Op{}, all...), Op{K: "msg", N: &d}, Op{K: "remove", T: "t1"})})
	}
}

// ---------------------------------------------------------------------------
// boundary values of every numeric wire field, in scalar and leaf-list
// position, for the receive path and the CLI

func extremeValues() []TV {
	var out []TV
	for _, p := range []uint32{0, 1, 17, 18, 19, 20, 308, 1 << 31, math.MaxUint32} {
		for _, d := range []int64{0, 1, -1, math.MinInt64, math.MaxInt64} {
			out = append(out, TV{K: "decimal", I: d, P: p})
		}
	}
	out = append(out, TV{K: "decimalnil"},
		TV{K: "int", I: math.MinInt64}, TV{K: "int", I: math.MaxInt64}, TV{K: "uint", U: math.MaxUint64}, TV{K: "uint"},
		TV{K: "double", U: 0x7ff0000000000000}, TV{K: "double", U: 0xfff0000000000000}, TV{K: "double", U: f64nan},
		TV{K: "double", U: 0x7fefffffffffffff}, TV{K: "double", U: 1},
		TV{K: "float", U: 0x7f800000}, TV{K: "float", U: 0x7fc00000}, TV{K: "float", U: 0x7f7fffff}, TV{K: "float", U: 1})
	return out
}

func extremeResps(emit func(Case)) {
	vals := extremeValues()
	ph := &GPath{Elems: names("a", "b")}
	for i, v := range vals {
		inList := TV{K: "leaflist", L: []TV{{K: "int", I: 1}, v}}
		nested := TV{K: "leaflist", L: []TV{{K: "leaflist", L: []TV{v}}}}
		ts := []int64{math.MinInt64, -1, 0, math.MaxInt64}[i%4]
		ops := []Op{
			{K: "resp", R: &Resp{K: "update", N: &Noti{TS: ts, Prefix: &GPath{Target: "t"}, Upd: []Upd{{Path: ph, Val: v}}}}},
			{K: "resp", R: &Resp{K: "update", N: &Noti{TS: 1, Prefix: &GPath{Target: "t"}, Upd: []Upd{{Path: &GPath{Elems: names("l")}, Val: inList}}}}},
			{K: "resp", R: &Resp{K: "sync"}},
			{K: "resp", R: &Resp{K: "update", N: &Noti{TS: ts, Prefix: &GPath{Target: "t"}, Upd: []Upd{{Path: &GPath{Elems: names("n")}, Val: nested}}, Del: []GPath{*ph}}}},
		}
		emit(Case{Family: "recv-extremes", Kind: "recv", QT: []string{"once", "poll", "stream"}[i%3], Ops: ops})
		emit(Case{Family: "cli-extremes", Kind: "cli", DT: []string{"group", "single", "proto"}[i%3], QT: []string{"stream", "once"}[i%2], TS: i%4 == 0, Ops: ops})
		if i%3 != 0 {
			emit(Case{Family: "cli-extremes", Kind: "cli", DT: "group", QT: "stream", Ops: ops})
		}
	}
}

// ---------------------------------------------------------------------------
// extreme values of the numeric fields: every ordered pair of timestamps from
// {min int64, -1, 0, 1, max int64 - 1, max int64} on one leaf (comparison, not
// subtraction, decides staleness), then a delete at each of them

func extremesIngest(emit func(Case)) {
	tss := []int64{math.MinInt64, -1, 0, 1, math.MaxInt64 - 1, math.MaxInt64}
	targets := []string{"t1", "t2"}
	t1 := &GPath{Target: "t1"}
	ph := &GPath{Elems: names("a", "b")}
	for _, a := range tss {
		for _, b := range tss {
			for _, d := range []int64{math.MinInt64, 0, math.MaxInt64} {
				emit(Case{Family: "ingest-extremes", Kind: "ingest", Targets: targets, Ops: []Op{
					{K: "msg", N: &Noti{TS: a, Prefix: t1, Upd: []Upd{{Path: ph, Val: TV{K: "int", I: math.MaxInt64}}}}},
					{K: "msg", N: &Noti{TS: b, Prefix: t1, Upd: []Upd{{Path: ph, Val: TV{K: "uint", U: math.MaxUint64}}}}},
					{K: "msg", N: &Noti{TS: d, Prefix: t1, Del: []GPath{*ph}}},
					{K: "msg", N: &Noti{TS: a, Prefix: t1, Upd: []Upd{{Path: ph, Val: TV{K: "int", I: math.MinInt64}}, {Path: &GPath{Elems: names("c")}, Val: TV{K: "decimal", I: math.MinInt64, P: math.MaxUint32}}}}},
					{K: "refresh"},
				}})
			}
		}
	}
}

// ---------------------------------------------------------------------------
// metadata leaves of a cache created with options: every registered metadata
// path (and a few neighbours) written with every kind of value, with and
// without a synced target that took a latency sample, then the refresh

func metaOptsIngest(emit func(Case)) {
	targets := []string{"t1", "t2"}
	paths := [][]string{
		{"meta", "serverName"}, {"meta", "serverName", "x"},
		{"meta", "latency", "window", "10ns", "avg"}, {"meta", "latency", "window", "10ns", "max"},
		{"meta", "latency", "window", "10ns", "min"}, {"meta", "latency", "window", "10ns"},
		{"meta", "latency", "window", "2s", "avg"}, {"meta", "latency"},
		{"meta", "targetSize"}, {"meta", "targetLeaves"}, {"meta", "latestTimestamp"},
		{"meta", "sync"}, {"meta", "connected"}, {"meta", "connectedAddress"}, {"meta", "connectError"},
	}
	vals := []TV{{K: "nil"}, {K: "unset"}, {K: "str", S: "x"}, {K: "int", I: 1}, {K: "bool", B: true},
		{K: "double", U: f64one}, {K: "leaflist", L: []TV{{K: "int", I: 1}}}}
	i := 0
	for _, ph := range paths {
		for _, v := range vals {
			for _, at := range []bool{false, true} {
				for _, synced := range []bool{false, true} {
					i++
					c := Case{Family: "ingest-metaopts", Kind: "ingest", Targets: targets}
					switch i % 4 {
					case 0:
						c.SrvName, c.Latency = true, true
					case 1:
						c.SrvName, c.Latency, c.NoEvent = true, true, true
					case 2:
						c.SrvName = true
					case 3:
						c.Latency = true
					}
					if synced {
						c.Ops = append(c.Ops,
							Op{K: "msg", N: &Noti{TS: 1, Prefix: &GPath{Target: "t1"}, Upd: []Upd{{Path: &GPath{Elems: names("meta", "sync")}, Val: TV{K: "bool", B: true}}}}},
							Op{K: "msg", N: &Noti{TS: 2, Prefix: &GPath{Target: "t1"}, Upd: []Upd{{Path: &GPath{Elems: names("a")}, Val: TV{K: "int", I: 5}}}}})
						if i%3 == 0 {
							// the same value again: suppressed (no sample) when event-driven, a sample otherwise
							c.Ops = append(c.Ops, Op{K: "msg", N: &Noti{TS: 3, Prefix: &GPath{Target: "t1"}, Upd: []Upd{{Path: &GPath{Elems: names("a")}, Val: TV{K: "int", I: 5}}}}})
						}
					}
					n := &Noti{TS: 4, Prefix: &GPath{Target: "t1"}, Atomic: at, Upd: []Upd{{Path: &GPath{Elems: names(ph...)}, Val: v}}}
					if at {
						n.Prefix = &GPath{Target: "t1", Elems: names(ph...)}
						n.Upd[0].Path = &GPath{Elems: names("z")}
					}
					c.Ops = append(c.Ops, Op{K: "msg", N: n}, Op{K: "refresh"})
					emit(c)
				}
			}
		}
	}
}

// ---------------------------------------------------------------------------
// look-alike values: successive updates of ONE leaf with values of the same
// arm that differ slightly (what value.Equal and proto.Equal have to tell apart)

func strs(ss ...string) []TV {
	out := make([]TV, len(ss))
	for i, s := range ss {
		out[i] = TV{K: "str", S: s}
	}
	return out
}

var f64nan = uint64(0x7ff8000000000001)

// lookalikePool: per arm a few values that are prefixes of each other, of the
// same length, empty, or equal up to representation
func lookalikePool() []TV {
	return []TV{
		{K: "nil"}, {K: "unset"},
		{K: "leaflist"}, {K: "leaflistnil"},
		{K: "leaflist", L: strs("red")}, {K: "leaflist", L: strs("red", "green")},
		{K: "leaflist", L: strs("red", "green", "blue")}, {K: "leaflist", L: strs("red", "blue")},
		{K: "leaflist", L: []TV{{K: "int", I: 1}, {K: "int", I: 2}}},
		{K: "leaflist", L: []TV{{K: "leaflist", L: strs("red")}, {K: "double", U: f64one}}},
		{K: "leaflist", L: []TV{{K: "leaflist", L: strs("red")}}},
		{K: "decimal", I: 314, P: 2}, {K: "decimal", I: 314, P: 3}, {K: "decimal"}, {K: "decimalnil"},
		{K: "double", U: f64one}, {K: "double", U: f64two}, {K: "double", U: 0}, {K: "double", U: 1 << 63}, {K: "double", U: f64nan},
		{K: "float", U: uint64(math.Float32bits(1.5))}, {K: "float", U: 0}, {K: "float", U: 1 << 31},
		{K: "str", S: "ab"}, {K: "str", S: "abc"}, {K: "str", S: ""},
		{K: "bytes", S: "ab"}, {K: "bytes", S: "abc"}, {K: "bytes", S: ""},
		{K: "ascii", S: "ab"}, {K: "proto", S: "ab"}, {K: "any"},
		{K: "json", S: `{"a":1}`}, {K: "json", S: `{"a":2}`}, {K: "jsonietf", S: `{"a":1}`},
		{K: "int", I: 1}, {K: "int", I: 2}, {K: "uint", U: 1}, {K: "uint", U: 2},
		{K: "bool", B: true}, {K: "bool", B: false},
	}
}

// pairsIngest: every ordered pair (v, w) of the look-alike pool is written to
// one leaf, v first; four pairs (four leaves) per cache.  Timestamps
// increasing or equal, event-driven emulation on or off, by position.
func pairsIngest(emit func(Case)) {
	pool := lookalikePool()
	targets := []string{"t1", "t2"}
	leaves := [][]Elem{names("a", "b"), names("c"), names("a", "d"), names("e", "f", "g")}
	var ops []Op
	k, cases := 0, 0
	flush := func() {
		if len(ops) == 0 {
			return
		}
		emit(Case{Family: "ingest-pairs", Kind: "ingest", Targets: targets, NoEvent: cases%2 == 1, Ops: ops})
		ops, k = nil, 0
		cases++
	}
	for i, v := range pool {
		for j, w := range pool {
			ph := &GPath{Elems: leaves[k]}
			ts2 := int64(2)
			if (i+j)%3 == 0 {
				ts2 = 1 // equal timestamps: different content replaces, equal content is stale
			}
			ops = append(ops,
				Op{K: "msg", N: &Noti{TS: 1, Prefix: &GPath{Target: "t1"}, Upd: []Upd{{Path: ph, Val: v}}}},
				Op{K: "msg", N: &Noti{TS: ts2, Prefix: &GPath{Target: "t1"}, Upd: []Upd{{Path: ph, Val: w}}}})
			k++
			if k == len(leaves) {
				flush()
			}
		}
	}
	flush()
}

// encodingPool: how an update can carry its value: typed value, deprecated
// Update.value only (JSON / bytes / another encoding), neither, both
func encodingPool() []Upd {
	return []Upd{
		{Val: TV{K: "int", I: 1}}, {Val: TV{K: "int", I: 2}}, {Val: TV{K: "json", S: `{"a":1}`}}, {Val: TV{K: "unset"}},
		{Val: TV{K: "nil"}, Dep: &Dep{Enc: 0, B: `{"a":1}`}}, {Val: TV{K: "nil"}, Dep: &Dep{Enc: 0, B: `{"a":2}`}},
		{Val: TV{K: "nil"}, Dep: &Dep{Enc: 1, B: "ab"}}, {Val: TV{K: "nil"}, Dep: &Dep{Enc: 5, B: ""}},
		{Val: TV{K: "nil"}},
		{Val: TV{K: "int", I: 1}, Dep: &Dep{Enc: 0, B: `{"a":1}`}}, {Val: TV{K: "unset"}, Dep: &Dep{Enc: 1, B: "ab"}},
	}
}

// encodingSequences: every ordered pair of value encodings on ONE leaf x the
// second timestamp {same, later, earlier} x {atomic, non-atomic} for either
// step, four leaves per cache, event-driven emulation on / off alternately;
// in the thorough tier also every ordered triple (non-atomic, later timestamps).
func encodingSequences(emit func(Case), thorough bool) {
	pool := encodingPool()
	targets := []string{"t1", "t2"}
	leaves := [][]Elem{names("a", "b"), names("c"), names("a", "d"), names("e", "f", "g")}
	var ops []Op
	k, cases := 0, 0
	flush := func() {
		if len(ops) == 0 {
			return
		}
		emit(Case{Family: "ingest-encodings", Kind: "ingest", Targets: targets, NoEvent: cases%2 == 1, Ops: ops})
		ops, k = nil, 0
		cases++
	}
	// one update of the leaf, stored non-atomically (prefix t1, path = leaf) or
	// atomically (prefix t1/leaf, path z): same index path either way
	mk := func(ts int64, leaf []Elem, u Upd, atomic bool) Op {
		if atomic {
			u.Path = &GPath{Elems: names("z")}
			return Op{K: "msg", N: &Noti{TS: ts, Prefix: &GPath{Target: "t1", Elems: leaf}, Atomic: true, Upd: []Upd{u}}}
		}
		u.Path = &GPath{Elems: leaf}
		return Op{K: "msg", N: &Noti{TS: ts, Prefix: &GPath{Target: "t1"}, Upd: []Upd{u}}}
	}
	for _, a := range pool {
		for _, b := range pool {
			for _, ts2 := range []int64{5, 6, 4} {
				for _, at := range [][2]bool{{false, false}, {false, true}, {true, false}, {true, true}} {
					if (at[0] || at[1]) && ts2 != 6 {
						continue // atomic combinations with the later timestamp only
					}
					ops = append(ops, mk(5, leaves[k], a, at[0]), mk(ts2, leaves[k], b, at[1]))
					k++
					if k == len(leaves) {
						flush()
					}
				}
			}
		}
	}
	flush()
	if !thorough {
		return
	}
	for _, a := range pool {
		for _, b := range pool {
			for _, c := range pool {
				ops = append(ops, mk(5, leaves[k], a, false), mk(6, leaves[k], b, false), mk(7, leaves[k], c, false))
				k++
				if k == len(leaves) {
					flush()
				}
			}
		}
	}
	flush()
}

// lookalikeIngest: a random walk through the pool on one or two leaves,
// biased towards staying inside an arm; single, multi and atomic messages.
func (g *gen) lookalikeIngest() Case {
	r := g.r
	pool := lookalikePool()
	targets := []string{"t1", "t2"}
	c := Case{Family: "ingest-lookalike", Kind: "ingest", Targets: targets, NoEvent: r.Chance(1, 2),
		SrvName: r.Chance(1, 4), Latency: r.Chance(1, 4)}
	if c.Latency && r.Chance(2, 3) {
		// a synced target, so that latency samples are taken
		c.Ops = append(c.Ops, Op{K: "msg", N: &Noti{TS: 1, Prefix: &GPath{Target: "t1"},
			Upd: []Upd{{Path: &GPath{Elems: names("meta", "sync")}, Val: TV{K: "bool", B: true}}}}})
	}
	paths := []*GPath{{Elems: names("a", "b")}, {Elems: names("c")}}
	if r.Chance(1, 6) {
		paths[1] = &GPath{Elems: names("meta", "x")}
	}
	cur := []int{r.Intn(len(pool)), r.Intn(len(pool))}
	ts := int64(1)
	k := 3 + r.Intn(6)
	for i := 0; i < k; i++ {
		which := r.Pick(3, 1)
		switch r.Pick(5, 3, 1) {
		case 0: // a neighbour in the pool (same arm, mostly)
			cur[which] += r.Intn(5) - 2
			if cur[which] < 0 {
				cur[which] = 0
			}
			if cur[which] >= len(pool) {
				cur[which] = len(pool) - 1
			}
		case 1:
			cur[which] = r.Intn(len(pool))
		}
		switch r.Pick(5, 3, 1) {
		case 0:
			ts++
		case 2:
			ts--
		}
		n := &Noti{TS: ts, Prefix: &GPath{Target: "t1"}, Upd: []Upd{{Path: paths[which], Val: pool[cur[which]]}}}
		if r.Chance(1, 5) {
			n.Upd[0].Dep = &Dep{Enc: int32(r.Intn(3)), B: []string{`{"a":1}`, "ab", ""}[r.Intn(3)]}
			if r.Chance(1, 2) {
				n.Upd[0].Val = TV{K: "nil"}
			}
		}
		if r.Chance(1, 6) {
			n.Upd = append(n.Upd, Upd{Path: paths[1-which], Val: pool[cur[1-which]]})
		}
		if r.Chance(1, 10) {
			n.Atomic = true
			n.Prefix = &GPath{Target: "t1", Elems: paths[which].Elems}
		}
		c.Ops = append(c.Ops, Op{K: "msg", N: n})
	}
	if r.Chance(1, 2) {
		c.Ops = append(c.Ops, Op{K: "refresh"})
	}
	return c
}

// lookalikeResps: the same walk as a response stream (one leaf updated over
// and over, a sync in the middle)
func (g *gen) lookalikeResps() []Op {
	r := g.r
	pool := lookalikePool()
	cur := r.Intn(len(pool))
	k := 3 + r.Intn(5)
	syncAt := r.Intn(k)
	var ops []Op
	for i := 0; i < k; i++ {
		if i == syncAt {
			ops = append(ops, Op{K: "resp", R: &Resp{K: "sync"}})
		}
		if r.Chance(1, 3) {
			cur = r.Intn(len(pool))
		} else {
			cur += r.Intn(5) - 2
			if cur < 0 {
				cur = 0
			}
			if cur >= len(pool) {
				cur = len(pool) - 1
			}
		}
		ph := &GPath{Elems: names("a", "b")}
		if r.Chance(1, 8) {
			ph = &GPath{Elems: names("a")}
		}
		ops = append(ops, Op{K: "resp", R: &Resp{K: "update", N: &Noti{TS: int64(1 + i), Prefix: &GPath{Target: "t"},
			Upd: []Upd{{Path: ph, Val: pool[cur]}}}}})
	}
	return ops
}

// ---------------------------------------------------------------------------
// Subscribe requests

func gridSub(emit func(Case), thorough bool) {
	prefixes := []*GPath{nil, {Target: ""}, {Target: "t1"}, {Target: "*"}, {Target: "tx"},
		{Target: "t1", Origin: "o"}, {Target: "t1", Elems: names("a")}, {}}
	subsets := []struct {
		p []*GPath
		h []bool
	}{
		{nil, nil},
		{[]*GPath{nil}, []bool{false}},
		{[]*GPath{{Elems: names("a")}}, []bool{true}},
		{[]*GPath{{}}, []bool{true}},
		{[]*GPath{{Elems: names("a", "b")}, nil, {Elems: names("*")}}, []bool{true, false, true}},
		{[]*GPath{{Origin: "o2", Elems: names("a")}}, []bool{true}},
		{[]*GPath{{Elems: names("a")}, {Origin: "o2"}}, []bool{true, true}},
		{[]*GPath{{Element: []string{"a", "b"}}}, []bool{true}},
	}
	for _, pf := range prefixes {
		for _, mode := range []int32{0, 1, 2, 3, 7} {
			for _, uo := range []bool{false, true} {
				for _, ss := range subsets {
					q := &Req{Recv: "msg", Kind: "subscribe", Prefix: pf, Mode: mode, UpdatesOnly: uo,
						Subs: ss.p, HasSubs: ss.h, Peer: true, Targets: []string{"t1", "t2"}, Stats: uo}
					emit(Case{Family: "sub-grid", Kind: "sub", Ops: []Op{{K: "req", Q: q}}})
				}
			}
		}
	}
	for _, kind := range []string{"poll", "none"} {
		emit(Case{Family: "sub-grid", Kind: "sub", Ops: []Op{{K: "req", Q: &Req{Recv: "msg", Kind: kind, Peer: true, Targets: []string{"t1"}}}}})
	}
	for _, rv := range []string{"eof", "err"} {
		emit(Case{Family: "sub-grid", Kind: "sub", Ops: []Op{{K: "req", Q: &Req{Recv: rv, Peer: true, Targets: []string{"t1"}}}}})
	}
	// environment assumption made visible: no gRPC peer in the context
	for _, pf := range []*GPath{nil, {Target: "t1"}, {Target: "tx"}} {
		for _, mode := range []int32{1, 7} {
			q := &Req{Recv: "msg", Kind: "subscribe", Prefix: pf, Mode: mode, Peer: false, Targets: []string{"t1"},
				Subs: []*GPath{{Elems: names("a")}}, HasSubs: []bool{true}}
			emit(Case{Family: "sub-nopeer", Kind: "sub", Ops: []Op{{K: "req", Q: q}}})
		}
	}
}

func (g *gen) randomSub() Case {
	r := g.r
	q := &Req{Recv: "msg", Kind: "subscribe", Peer: true, Targets: []string{"t1", "t2"}}
	q.Prefix = g.prefix([]string{"t1", "t2", "*"})
	q.Mode = int32(r.Pick(4, 4, 3, 1))
	if q.Mode == 3 {
		q.Mode = int32(3 + r.Intn(5))
	}
	q.UpdatesOnly = r.Chance(1, 5)
	q.Stats = r.Chance(1, 2)
	k := r.Pick(1, 5, 3, 2)
	for i := 0; i < k; i++ {
		p := g.path(true, false)
		q.Subs = append(q.Subs, p)
		q.HasSubs = append(q.HasSubs, p != nil)
	}
	return Case{Family: "sub-random", Kind: "sub", Ops: []Op{{K: "req", Q: q}}}
}

// ---------------------------------------------------------------------------
// responses

func (g *gen) resp(emptyNames bool) *Resp {
	r := g.r
	if r.Chance(1, 30) {
		return &Resp{K: "fail"}
	}
	switch r.Pick(14, 4, 1, 1) {
	case 1:
		return &Resp{K: "sync"}
	case 2:
		return &Resp{K: "error"}
	case 3:
		return &Resp{K: "unset"}
	}
	n := &Noti{TS: int64(1 + r.Intn(5))}
	switch r.Pick(3, 5, 2, 1) {
	case 0:
		n.Prefix = nil
	case 1:
		n.Prefix = &GPath{Target: "t"}
	case 2:
		n.Prefix = &GPath{Target: "t", Origin: "o", Elems: names("a")}
	case 3:
		n.Prefix = &GPath{}
	}
	nu := r.Pick(2, 8, 4)
	nd := r.Pick(8, 3)
	pool := valuePool()
	for i := 0; i < nu; i++ {
		u := Upd{Path: g.path(r.Chance(1, 3), emptyNames), Val: pool[r.Intn(len(pool))]}
		if r.Chance(3, 4) {
			u.Val = goodValues()[r.Intn(len(goodValues()))]
		}
		if r.Chance(1, 12) {
			u.Path = &GPath{}
		}
		if r.Chance(1, 10) {
			// both encodings at once: the typed value wins
			u.Dep = &Dep{Enc: int32(r.Intn(6)), B: []string{`{"a":1}`, `{bad`, `raw`}[r.Intn(3)]}
		}
		if r.Chance(1, 5) {
			u.Val = TV{K: "nil"}
			u.Dep = nil
			if r.Chance(3, 4) {
				u.Dep = &Dep{Enc: int32(r.Intn(6)), B: []string{`{"a":1}`, `5`, `{bad`, ``, `raw`}[r.Intn(5)]}
			}
		}
		n.Upd = append(n.Upd, u)
	}
	for i := 0; i < nd; i++ {
		d := g.path(false, emptyNames)
		if r.Chance(1, 8) {
			d = &GPath{}
		}
		n.Del = append(n.Del, *d)
	}
	return &Resp{K: "update", N: n}
}

func (g *gen) resps(emptyNames bool) []Op {
	k := 1 + g.r.Intn(6)
	ops := make([]Op, 0, k)
	for i := 0; i < k; i++ {
		ops = append(ops, Op{K: "resp", R: g.resp(emptyNames)})
	}
	return ops
}

func (g *gen) randomRecv() Case {
	return Case{Family: "recv-random", Kind: "recv", QT: []string{"once", "poll", "stream"}[g.r.Intn(3)], Ops: g.resps(true)}
}

func (g *gen) randomCli() Case {
	r := g.r
	c := Case{Family: "cli-random", Kind: "cli", Ops: g.resps(false)}
	switch r.Pick(6, 3, 2, 1) {
	case 0:
		c.DT = "group"
	case 1:
		c.DT = "single"
	case 2:
		c.DT = "proto"
	case 3:
		c.DT = "bogus"
	}
	c.QT = []string{"once", "poll", "stream"}[r.Intn(3)]
	c.TS = r.Chance(1, 3)
	c.Family = "cli-" + c.DT
	return c
}

func gridCli(emit func(Case)) {
	paths := []*GPath{nil, {}, {Elems: names("a")}, {Elems: names("a", "b")}, {Element: []string{"c"}}}
	prefixes := []*GPath{nil, {}, {Target: "t"}, {Origin: "o"}}
	vals := []TV{{K: "nil"}, {K: "int", I: 1}, {K: "any"}}
	for _, dt := range []string{"group", "single", "proto"} {
		for _, qt := range []string{"once", "stream", "poll"} {
			for _, ts := range []bool{false, true} {
				if (ts || qt == "poll") && dt != "group" {
					continue
				}
				for _, pf := range prefixes {
					for _, ph := range paths {
						for _, v := range vals {
							up := &Resp{K: "update", N: &Noti{TS: 3, Prefix: pf, Upd: []Upd{{Path: ph, Val: v}}}}
							ops := []Op{
								{K: "resp", R: &Resp{K: "update", N: &Noti{TS: 1, Prefix: &GPath{Target: "t"}, Upd: []Upd{{Path: &GPath{Elems: names("x", "y")}, Val: TV{K: "int", I: 2}}}}}},
								{K: "resp", R: up}, {K: "resp", R: &Resp{K: "sync"}}, {K: "resp", R: up},
							}
							if ph != nil {
								ops = append(ops, Op{K: "resp", R: &Resp{K: "update", N: &Noti{TS: 4, Prefix: pf, Del: []GPath{*ph}}}})
							}
							emit(Case{Family: "cli-grid", Kind: "cli", DT: dt, QT: qt, TS: ts, Ops: ops})
							if v.K == "int" && ph != nil && len(ph.Elems) == 1 {
								for pos := 0; pos <= len(ops); pos++ {
									f := append(append(append([]Op{}, ops[:pos]...), Op{K: "resp", R: &Resp{K: "fail"}}), ops[pos:]...)
									emit(Case{Family: "cli-fault", Kind: "cli", DT: dt, QT: qt, TS: ts, Ops: f})
									if dt == "group" && !ts {
										emit(Case{Family: "recv-fault", Kind: "recv", QT: qt, Ops: f})
									}
								}
							}
						}
					}
				}
			}
		}
	}
}

// ---------------------------------------------------------------------------
// byte-level mutation of valid encodings

func mutateBytes(r *vh.Rand, b []byte) []byte {
	out := append([]byte{}, b...)
	k := 1 + r.Intn(3)
	for i := 0; i < k && len(out) > 0; i++ {
		pos := r.Intn(len(out))
		switch r.Pick(5, 2, 2, 1) {
		case 0:
			out[pos] ^= byte(1 << uint(r.Intn(8)))
		case 1:
			out = append(out[:pos], out[pos+1:]...)
		case 2:
			out = append(out[:pos], append([]byte{byte(r.Intn(256))}, out[pos:]...)...)
		case 3:
			out[pos] = byte(r.Intn(8))
		}
	}
	return out
}

// mutatedNoti returns a notification decoded from a mutated valid encoding,
// or nil when the mutation does not decode / cannot be written down.
func (g *gen) mutatedNoti() *Noti {
	base := g.noti([]string{"t1", "t2"}, int64(2+g.r.Intn(3)))
	if base.Prefix == nil {
		base.Prefix = &GPath{Target: "t1"}
	}
	b, err := proto.Marshal(notiPB(base))
	if err != nil {
		return nil
	}
	m := &pb.Notification{}
	if proto.Unmarshal(mutateBytes(g.r, b), m) != nil {
		return nil
	}
	abs := notiAbs(m)
	if !cleanNoti(abs) || abs.TS < -1000 || abs.TS > 1000 {
		return nil
	}
	return abs
}

func (g *gen) mutatedResp() *Resp {
	base := g.resp(true)
	b, err := proto.Marshal(respPB(base))
	if err != nil {
		return nil
	}
	m := &pb.SubscribeResponse{}
	if proto.Unmarshal(mutateBytes(g.r, b), m) != nil {
		return nil
	}
	abs := respAbs(m)
	if abs.N != nil && !cleanNoti(abs.N) {
		return nil
	}
	return abs
}

// Abstract messages of the C12 harness, their protobuf concretisation (always
// through a Marshal / Unmarshal round trip, so that every message handed to the
// code under test is wire-reachable) and their rendering as Gallina terms.
package main

import (
	"fmt"
	"math"
	"sort"
	"strings"

	"google.golang.org/protobuf/proto"
	"google.golang.org/protobuf/types/known/anypb"

	pb "github.com/openconfig/gnmi/proto/gnmi"
	"github.com/openconfig/gnmi/zz_verif/vh"
)

// Elem is one PathElem.
type Elem struct {
	Name string            `json:"n"`
	Keys map[string]string `json:"k,omitempty"`
}

// GPath is a gnmi.Path; a nil *GPath is an absent path.
type GPath struct {
	Target  string   `json:"t,omitempty"`
	Origin  string   `json:"o,omitempty"`
	Elems   []Elem   `json:"e,omitempty"`
	Element []string `json:"el,omitempty"`
}

// TV is a TypedValue. K: nil unset str int uint bool bytes float double
// decimal leaflist any json jsonietf ascii proto.
type TV struct {
	K string `json:"k"`
	S string `json:"s,omitempty"`
	I int64  `json:"i,omitempty"`
	U uint64 `json:"u,omitempty"` // uint value, float32 / float64 bits
	B bool   `json:"b,omitempty"`
	P uint32 `json:"p,omitempty"` // decimal precision
	L []TV   `json:"l,omitempty"`
}

// Dep is the deprecated Update.value field.
type Dep struct {
	Enc int32  `json:"enc"`
	B   string `json:"b"`
}

// Upd is one Update.
type Upd struct {
	Path *GPath `json:"p"`
	Val  TV     `json:"v"`
	Dep  *Dep   `json:"dep,omitempty"`
}

// Noti is a Notification.
type Noti struct {
	TS     int64   `json:"ts"`
	Prefix *GPath  `json:"prefix"`
	Upd    []Upd   `json:"upd,omitempty"`
	Del    []GPath `json:"del,omitempty"`
	Atomic bool    `json:"atomic,omitempty"`
}

// Resp is a SubscribeResponse. K: update sync error unset; fail: no response,
// the stream's Recv returns an error at this position.
type Resp struct {
	K string `json:"k"`
	N *Noti  `json:"n,omitempty"`
}

// Req is the first thing Subscribe receives. Recv: msg eof err. Kind:
// subscribe poll none.
type Req struct {
	Recv        string   `json:"recv"`
	Kind        string   `json:"kind,omitempty"`
	Prefix      *GPath   `json:"prefix,omitempty"`
	Mode        int32    `json:"mode,omitempty"`
	UpdatesOnly bool     `json:"uo,omitempty"`
	Subs        []*GPath `json:"subs,omitempty"`
	HasSubs     []bool   `json:"hs,omitempty"` // false: Subscription entry without a path
	Peer        bool     `json:"peer"`
	Stats       bool     `json:"stats,omitempty"`
	Setup       []Noti   `json:"setup,omitempty"` // notifications ingested (and relayed to Server.Update) before the request
	Targets     []string `json:"targets,omitempty"`
}

// Op is one element of a case's operation list.
type Op struct {
	K string `json:"k"` // msg refresh resp req remove reset
	T string `json:"t,omitempty"` // remove / reset: target name
	N *Noti  `json:"n,omitempty"`
	R *Resp  `json:"r,omitempty"`
	Q *Req   `json:"q,omitempty"`
}

// Case is the JSON description of one case (inputs only are read on replay).
type Case struct {
	Family  string      `json:"family"`
	Kind    string      `json:"kind"` // ingest sub recv cli
	Targets []string    `json:"targets,omitempty"`
	QT      string      `json:"qt,omitempty"` // once poll stream
	DT      string      `json:"dt,omitempty"` // group single proto bogus
	TS      bool        `json:"with_ts,omitempty"`
	NoEvent bool        `json:"no_event_driven,omitempty"` // ingest: cache.DisableEventDrivenEmulation()
	SrvName bool        `json:"server_name,omitempty"`     // ingest: cache.WithServerName("srv")
	Latency bool        `json:"latency,omitempty"`         // ingest: cache.WithLatencyWindows(["10ns"], 1ns)
	Ops     []Op        `json:"ops"`
	Obs     interface{} `json:"obs,omitempty"`
}

// ---------------------------------------------------------------------------
// abstract -> protobuf

func pathPB(p *GPath) *pb.Path {
	if p == nil {
		return nil
	}
	o := &pb.Path{Target: p.Target, Origin: p.Origin, Element: p.Element}
	for _, e := range p.Elems {
		o.Elem = append(o.Elem, &pb.PathElem{Name: e.Name, Key: e.Keys})
	}
	return o
}

func tvPB(v TV) *pb.TypedValue {
	switch v.K {
	case "nil":
		return nil
	case "unset":
		return &pb.TypedValue{}
	case "str":
		return &pb.TypedValue{Value: &pb.TypedValue_StringVal{StringVal: v.S}}
	case "int":
		return &pb.TypedValue{Value: &pb.TypedValue_IntVal{IntVal: v.I}}
	case "uint":
		return &pb.TypedValue{Value: &pb.TypedValue_UintVal{UintVal: v.U}}
	case "bool":
		return &pb.TypedValue{Value: &pb.TypedValue_BoolVal{BoolVal: v.B}}
	case "bytes":
		return &pb.TypedValue{Value: &pb.TypedValue_BytesVal{BytesVal: []byte(v.S)}}
	case "float":
		return &pb.TypedValue{Value: &pb.TypedValue_FloatVal{FloatVal: math.Float32frombits(uint32(v.U))}}
	case "double":
		return &pb.TypedValue{Value: &pb.TypedValue_DoubleVal{DoubleVal: math.Float64frombits(v.U)}}
	case "decimal":
		return &pb.TypedValue{Value: &pb.TypedValue_DecimalVal{DecimalVal: &pb.Decimal64{Digits: v.I, Precision: v.P}}}
	case "leaflistnil":
		// oneof arm holding a nil *ScalarArray: reads as the empty list after the wire
		return &pb.TypedValue{Value: &pb.TypedValue_LeaflistVal{}}
	case "decimalnil":
		return &pb.TypedValue{Value: &pb.TypedValue_DecimalVal{}}
	case "leaflist":
		sa := &pb.ScalarArray{}
		for _, e := range v.L {
			sa.Element = append(sa.Element, tvPB(e))
		}
		return &pb.TypedValue{Value: &pb.TypedValue_LeaflistVal{LeaflistVal: sa}}
	case "any":
		return &pb.TypedValue{Value: &pb.TypedValue_AnyVal{AnyVal: &anypb.Any{TypeUrl: "x", Value: []byte("y")}}}
	case "json":
		return &pb.TypedValue{Value: &pb.TypedValue_JsonVal{JsonVal: []byte(v.S)}}
	case "jsonietf":
		return &pb.TypedValue{Value: &pb.TypedValue_JsonIetfVal{JsonIetfVal: []byte(v.S)}}
	case "ascii":
		return &pb.TypedValue{Value: &pb.TypedValue_AsciiVal{AsciiVal: v.S}}
	case "proto":
		return &pb.TypedValue{Value: &pb.TypedValue_ProtoBytes{ProtoBytes: []byte(v.S)}}
	}
	panic("harness: unknown value kind " + v.K)
}

func notiPB(n *Noti) *pb.Notification {
	o := &pb.Notification{Timestamp: n.TS, Prefix: pathPB(n.Prefix), Atomic: n.Atomic}
	for _, u := range n.Upd {
		pu := &pb.Update{Path: pathPB(u.Path), Val: tvPB(u.Val)}
		if u.Dep != nil {
			pu.Value = &pb.Value{Value: []byte(u.Dep.B), Type: pb.Encoding(u.Dep.Enc)}
		}
		o.Update = append(o.Update, pu)
	}
	for i := range n.Del {
		o.Delete = append(o.Delete, pathPB(&n.Del[i]))
	}
	return o
}

func respPB(r *Resp) *pb.SubscribeResponse {
	switch r.K {
	case "update":
		return &pb.SubscribeResponse{Response: &pb.SubscribeResponse_Update{Update: notiPB(r.N)}}
	case "sync":
		return &pb.SubscribeResponse{Response: &pb.SubscribeResponse_SyncResponse{SyncResponse: true}}
	case "error":
		return &pb.SubscribeResponse{Response: &pb.SubscribeResponse_Error{Error: &pb.Error{Code: 3, Message: "e"}}}
	}
	return &pb.SubscribeResponse{}
}

func reqPB(q *Req) *pb.SubscribeRequest {
	switch q.Kind {
	case "poll":
		return &pb.SubscribeRequest{Request: &pb.SubscribeRequest_Poll{Poll: &pb.Poll{}}}
	case "none":
		return &pb.SubscribeRequest{}
	}
	sl := &pb.SubscriptionList{Prefix: pathPB(q.Prefix), Mode: pb.SubscriptionList_Mode(q.Mode), UpdatesOnly: q.UpdatesOnly}
	for i, s := range q.Subs {
		if i < len(q.HasSubs) && !q.HasSubs[i] {
			s = nil
		}
		sl.Subscription = append(sl.Subscription, &pb.Subscription{Path: pathPB(s)})
	}
	return &pb.SubscribeRequest{Request: &pb.SubscribeRequest_Subscribe{Subscribe: sl}}
}

// wire passes m through the protobuf wire format into fresh.
func wire(m, fresh proto.Message) {
	b, err := proto.Marshal(m)
	if err != nil {
		panic("harness: marshal: " + err.Error())
	}
	if err := proto.Unmarshal(b, fresh); err != nil {
		panic("harness: unmarshal: " + err.Error())
	}
}

// ---------------------------------------------------------------------------
// protobuf -> abstract (what the code under test was really given)

func pathAbs(p *pb.Path) *GPath {
	if p == nil {
		return nil
	}
	o := &GPath{Target: p.Target, Origin: p.Origin, Element: p.Element}
	for _, e := range p.Elem {
		o.Elems = append(o.Elems, Elem{Name: e.GetName(), Keys: e.GetKey()})
	}
	return o
}

func tvAbs(v *pb.TypedValue) TV {
	if v == nil {
		return TV{K: "nil"}
	}
	switch x := v.Value.(type) {
	case nil:
		return TV{K: "unset"}
	case *pb.TypedValue_StringVal:
		return TV{K: "str", S: x.StringVal}
	case *pb.TypedValue_IntVal:
		return TV{K: "int", I: x.IntVal}
	case *pb.TypedValue_UintVal:
		return TV{K: "uint", U: x.UintVal}
	case *pb.TypedValue_BoolVal:
		return TV{K: "bool", B: x.BoolVal}
	case *pb.TypedValue_BytesVal:
		return TV{K: "bytes", S: string(x.BytesVal)}
	case *pb.TypedValue_FloatVal:
		return TV{K: "float", U: uint64(math.Float32bits(x.FloatVal))}
	case *pb.TypedValue_DoubleVal:
		return TV{K: "double", U: math.Float64bits(x.DoubleVal)}
	case *pb.TypedValue_DecimalVal:
		return TV{K: "decimal", I: x.DecimalVal.GetDigits(), P: x.DecimalVal.GetPrecision()}
	case *pb.TypedValue_LeaflistVal:
		o := TV{K: "leaflist"}
		for _, e := range x.LeaflistVal.GetElement() {
			o.L = append(o.L, tvAbs(e))
		}
		return o
	case *pb.TypedValue_AnyVal:
		return TV{K: "any"}
	case *pb.TypedValue_JsonVal:
		return TV{K: "json", S: string(x.JsonVal)}
	case *pb.TypedValue_JsonIetfVal:
		return TV{K: "jsonietf", S: string(x.JsonIetfVal)}
	case *pb.TypedValue_AsciiVal:
		return TV{K: "ascii", S: x.AsciiVal}
	case *pb.TypedValue_ProtoBytes:
		return TV{K: "proto", S: string(x.ProtoBytes)}
	}
	return TV{K: "unset"}
}

func notiAbs(n *pb.Notification) *Noti {
	o := &Noti{TS: n.GetTimestamp(), Prefix: pathAbs(n.GetPrefix()), Atomic: n.GetAtomic()}
	for _, u := range n.GetUpdate() {
		au := Upd{Path: pathAbs(u.GetPath()), Val: tvAbs(u.GetVal())}
		if u.GetValue() != nil {
			au.Dep = &Dep{Enc: int32(u.GetValue().GetType()), B: string(u.GetValue().GetValue())}
		}
		o.Upd = append(o.Upd, au)
	}
	for _, d := range n.GetDelete() {
		o.Del = append(o.Del, *pathAbs(d))
	}
	return o
}

func respAbs(r *pb.SubscribeResponse) *Resp {
	switch x := r.GetResponse().(type) {
	case *pb.SubscribeResponse_Update:
		return &Resp{K: "update", N: notiAbs(x.Update)}
	case *pb.SubscribeResponse_SyncResponse:
		return &Resp{K: "sync"}
	case *pb.SubscribeResponse_Error:
		return &Resp{K: "error"}
	}
	return &Resp{K: "unset"}
}

// clean reports whether every string of the message can be written into a
// Coq source file as it is (printable ASCII).
func cleanStr(s string) bool {
	for i := 0; i < len(s); i++ {
		if s[i] < 0x20 || s[i] > 0x7e {
			return false
		}
	}
	return len(s) <= 40
}

func cleanPath(p *GPath) bool {
	if p == nil {
		return true
	}
	if !cleanStr(p.Target) || !cleanStr(p.Origin) {
		return false
	}
	for _, e := range p.Element {
		if !cleanStr(e) {
			return false
		}
	}
	for _, e := range p.Elems {
		if !cleanStr(e.Name) {
			return false
		}
		for k, v := range e.Keys {
			if !cleanStr(k) || !cleanStr(v) {
				return false
			}
		}
	}
	return true
}

func cleanTV(v TV) bool {
	if !cleanStr(v.S) {
		return false
	}
	for _, e := range v.L {
		if !cleanTV(e) {
			return false
		}
	}
	return true
}

func cleanNoti(n *Noti) bool {
	if n == nil {
		return true
	}
	if !cleanPath(n.Prefix) || len(n.Upd) > 6 || len(n.Del) > 6 {
		return false
	}
	for _, u := range n.Upd {
		if !cleanPath(u.Path) || !cleanTV(u.Val) || (u.Dep != nil && !cleanStr(u.Dep.B)) {
			return false
		}
	}
	for i := range n.Del {
		if !cleanPath(&n.Del[i]) {
			return false
		}
	}
	return true
}

// ---------------------------------------------------------------------------
// Gallina

func gStrPairs(nm *vh.Names, m map[string]string) string {
	ks := make([]string, 0, len(m))
	for k := range m {
		ks = append(ks, k)
	}
	sort.Strings(ks)
	parts := make([]string, len(ks))
	for i, k := range ks {
		parts[i] = fmt.Sprintf("(%s, %s)", nm.Ref(k), nm.Ref(m[k]))
	}
	return vh.List(parts)
}

func gPath(nm *vh.Names, p *GPath) string {
	es := make([]string, len(p.Elems))
	for i, e := range p.Elems {
		es[i] = fmt.Sprintf("(%s, %s)", nm.Ref(e.Name), gStrPairs(nm, e.Keys))
	}
	return fmt.Sprintf("(GPath %s %s %s %s)", nm.Ref(p.Target), nm.Ref(p.Origin), vh.List(es), nm.Path(p.Element))
}

func gOptPath(nm *vh.Names, p *GPath) string {
	if p == nil {
		return "None"
	}
	return "(Some " + gPath(nm, p) + ")"
}

func gN(u uint64) string { return fmt.Sprintf("%d%%N", u) }

func gTV(nm *vh.Names, v TV) string {
	switch v.K {
	case "nil":
		return "TVnil"
	case "unset":
		return "TVunset"
	case "str":
		return "(TVString " + nm.Ref(v.S) + ")"
	case "int":
		return "(TVInt " + vh.Z(v.I) + ")"
	case "uint":
		return "(TVUint " + gN(v.U) + ")"
	case "bool":
		return "(TVBool " + vh.Bool(v.B) + ")"
	case "bytes":
		return "(TVBytes " + nm.Ref(v.S) + ")"
	case "float":
		return "(TVFloat " + gN(v.U) + ")"
	case "double":
		return "(TVDouble " + gN(v.U) + ")"
	case "decimal":
		return "(TVDecimal " + vh.Z(v.I) + " " + gN(uint64(v.P)) + ")"
	case "leaflist":
		es := make([]string, len(v.L))
		for i, e := range v.L {
			es[i] = gTV(nm, e)
		}
		return "(TVLeaflist " + vh.List(es) + ")"
	case "any":
		return "TVAny"
	case "json":
		return "(TVJson " + nm.Ref(v.S) + ")"
	case "jsonietf":
		return "(TVJsonIetf " + nm.Ref(v.S) + ")"
	case "ascii":
		return "(TVAscii " + nm.Ref(v.S) + ")"
	case "proto":
		return "(TVProtoBytes " + nm.Ref(v.S) + ")"
	}
	panic("harness: gTV " + v.K)
}

// gNotif renders an ingest notification (IngestModel.notif).
func gNotif(nm *vh.Names, n *Noti) string {
	us := make([]string, len(n.Upd))
	for i, u := range n.Upd {
		dep := "None"
		if u.Dep != nil {
			dep = fmt.Sprintf("(Some (%s, %s))", gN(uint64(uint32(u.Dep.Enc))), nm.Ref(u.Dep.B))
		}
		us[i] = fmt.Sprintf("(UpdD %s %s %s)", gOptPath(nm, u.Path), gTV(nm, u.Val), dep)
	}
	ds := make([]string, len(n.Del))
	for i := range n.Del {
		ds[i] = gPath(nm, &n.Del[i])
	}
	return fmt.Sprintf("(Notif %s %s %s %s %s)", vh.Z(n.TS), gOptPath(nm, n.Prefix), vh.List(us), vh.List(ds), vh.Bool(n.Atomic))
}

// gResp renders a response (ClientRecvModel.resp).
func gResp(nm *vh.Names, r *Resp) string {
	switch r.K {
	case "sync":
		return "RSync"
	case "error":
		return "RError"
	case "unset":
		return "RUnset"
	case "fail":
		return "RFail"
	}
	n := r.N
	us := make([]string, len(n.Upd))
	for i, u := range n.Upd {
		dep := "None"
		if u.Dep != nil {
			dep = fmt.Sprintf("(Some (%s, %s))", gN(uint64(uint32(u.Dep.Enc))), nm.Ref(u.Dep.B))
		}
		us[i] = fmt.Sprintf("(CUpd %s %s %s)", gOptPath(nm, u.Path), gTV(nm, u.Val), dep)
	}
	ds := make([]string, len(n.Del))
	for i := range n.Del {
		ds[i] = gPath(nm, &n.Del[i])
	}
	return fmt.Sprintf("(RUpdate (CNotif %s %s %s))", gOptPath(nm, n.Prefix), vh.List(us), vh.List(ds))
}

func gPaths(nm *vh.Names, ps [][]string) string {
	parts := make([]string, len(ps))
	for i, p := range ps {
		parts[i] = nm.Path(p)
	}
	return vh.List(parts)
}

func gOclass(s string) string {
	switch s {
	case "ok":
		return "OOk"
	case "err":
		return "OErr"
	}
	return "OPanic"
}

func joinNames(p []string) string { return strings.Join(p, "/") }

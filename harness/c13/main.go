// Harness for C13: drives the real manager.Manager with an injected
// ConnectionManager, a scripted CredentialsClient and a scripted stream per
// target (the unexported subscribeClient hook is replaced through an overlay
// file, as manager_test.go does), issues Reconnect / Remove / Add from a
// control goroutine per target when the target's log reaches given lengths, and
// records ONE totally ordered log per target name: markers around the
// harness's own API calls, every environment query of the manager with its
// answer, and every callback.  Coq (ManagerCheck.check_all) decides whether the
// model can produce that log and whether the property holds on it.
package main

import (
	"context"
	"encoding/json"
	"errors"
	"flag"
	"fmt"
	"io"
	"os"
	"runtime"
	"strconv"
	"strings"
	"sync"
	"sync/atomic"
	"time"

	"google.golang.org/grpc"
	"google.golang.org/grpc/metadata"

	"github.com/openconfig/gnmi/connection"
	"github.com/openconfig/gnmi/manager"
	gpb "github.com/openconfig/gnmi/proto/gnmi"
	tpb "github.com/openconfig/gnmi/proto/target"
	"github.com/openconfig/gnmi/zz_verif/vh"
)

// ---------------------------------------------------------------------------
// case description

// Stream is one scripted stream: Msgs is a string over u (update without a
// prefix) o p q (update whose prefix.target is the target's OWN name / the name
// of the NEXT target of the case, managed or already removed / a name nobody
// manages) s (sync) e (error response) n (nil response) w / W (3 ms / 30 ms pause
// before the next answer) L (the next answer is delivered just after the
// receive timeout has expired, whether or not the stream was cancelled meanwhile);
// End is what Recv does afterwards: err, eof, canceled / deadline (an error
// value context.Canceled / DeadlineExceeded although the stream's context is
// alive), or hang (block until the stream's context is done).
type Stream struct {
	Msgs string `json:"msgs"`
	End  string `json:"end"`
}

// TargetSpec is the environment script of one target name.  The k-th
// credentials lookup / dial / stream open / Send of that name gets the k-th
// entry of the respective tape (true = success); an exhausted tape answers
// success, an exhausted stream list gives an empty hanging stream.
type TargetSpec struct {
	Creds     bool     `json:"creds"`
	Hops      int      `json:"hops"`
	TimeoutMs int      `json:"timeout_ms"` // per-target receive_timeout meta; 0 = none
	Cred      []bool   `json:"cred,omitempty"`
	Dial      []bool   `json:"dial,omitempty"`
	Open      []bool   `json:"open,omitempty"`
	Send      []bool   `json:"send,omitempty"`
	Streams   []Stream `json:"streams,omitempty"`
	// DupAddr: every address line is listed twice, once with a chain suffix
	// (";x;y"): still Hops unique next hops.
	DupAddr bool `json:"dup_addr,omitempty"`
	// TimeoutRaw, if set, is the literal receive_timeout meta value (may be
	// unparsable: the manager-wide timeout then applies).
	TimeoutRaw string `json:"timeout_raw,omitempty"`
	// DialBlock[k] / OpenBlock[k]: the k-th dial / stream open does not answer
	// but BLOCKS until its context ends (dial timeout, Reconnect, Remove) and
	// then fails with the context's error.
	DialBlock []bool `json:"dial_block,omitempty"`
	OpenBlock []bool `json:"open_block,omitempty"`
	// Dialers[k] is the dialer name in the target's configuration for its k-th
	// incarnation (last entry repeated; none = default dialer).  Only the
	// real-connection-manager family knows dialer names: "" and "alt" exist,
	// anything else is an unknown dialer.
	Dialers []string `json:"dialers,omitempty"`
	// BadFirst: an Add with invalid arguments of that kind (see op "addbad")
	// is issued for the name before its first valid Add.
	BadFirst string `json:"bad_first,omitempty"`
	// Reenter: the N-th callback of kind Cb calls Manager.Reconnect(name) itself
	// before it returns (an application reacting to what it receives), unless
	// the control goroutine is in the middle of a call of its own.
	Reenter *Gate `json:"reenter,omitempty"`
	// Gate: the N-th callback of kind Cb (Connect Update Sync Reset CE ME) for
	// this name blocks until the harness releases it (op "overlap").
	Gate *Gate `json:"gate,omitempty"`
}

// Gate names one callback occurrence.
type Gate struct {
	Cb string `json:"cb"`
	N  int    `json:"n"`
}

// Op is one control action on target T, issued once that target's log holds
// At goroutine letters (or the target sits in a stream that can only be ended
// from outside).  K: reconnect | remove | add | readd (remove then add) |
// overlap: once the target's gate has closed, Remove is issued, and while it
// is in progress (observed waiting inside Manager.Remove) a SECOND goroutine
// calls X (add | remove | reconnect) for the same name; then the gate opens.
// addbad: an Add of the name with invalid arguments, X = nilreq (nil subscribe
// request) | noaddr (target without addresses) | niltarget | noname (empty
// name): it must be refused whatever the state of the name and change nothing.
// At < 0: issued when the target is inside a blocking dial / stream open.
type Op struct {
	T  int    `json:"t"`
	At int    `json:"at"`
	K  string `json:"k"`
	X  string `json:"x,omitempty"`
}

// Case is what is written to cases_k.json and read back for replay.
type Case struct {
	Family       string       `json:"family"`
	MgrTimeoutMs int          `json:"mgr_timeout_ms"` // Config.ReceiveTimeout
	// DialTimeoutMs: Config.Timeout, the manager's bound on one dial.
	DialTimeoutMs int `json:"dial_timeout_ms,omitempty"`
	// RealCM: the Manager runs on the real connection.Manager (scripted
	// dialers "" and "alt"; targets share the address strings) instead of the
	// injected one.
	RealCM bool `json:"real_cm,omitempty"`
	// CbDelayUs > 0: every callback takes that long (a callback is logged when
	// it RETURNS, so a callback still running after Remove returned is seen).
	CbDelayUs int `json:"cb_delay_us,omitempty"`
	Targets      []TargetSpec `json:"targets"`
	Ops          []Op         `json:"ops"`
	// Reps > 1: the case is run Reps times (timing varies between runs); Obs
	// then holds Reps * len(Targets) logs, run after run.
	Reps int        `json:"reps,omitempty"`
	Obs  [][]string `json:"obs,omitempty"`
	// Gaps[i]: microseconds from the return of each MonitorError callback in
	// Obs[i] to the goroutine's next letter of the same incarnation.
	Gaps [][]int64 `json:"gaps,omitempty"`
	// MaxWaitUs[i]: the longest time one Recv call of Obs[i] took.  When the
	// receive timeout is at least 40 ms and no Recv took a quarter of it, the
	// timer cannot have been due in that run and the model is told "no timeout"
	// (a timer that is not re-armed per Recv then shows as an unexplained cancel).
	MaxWaitUs []int64 `json:"max_wait_us,omitempty"`
}

// ---------------------------------------------------------------------------
// per-target runtime

// longTimeoutMs and above: the receive timer is armed by the code but cannot
// expire within a run; the model is then told "no timeout".
const longTimeoutMs = 3600000

type tgt struct {
	name    string
	spec    TargetSpec
	timeout bool // the receive timer may expire during the run
	cbDelay time.Duration

	mu        sync.Mutex
	cond      *sync.Cond
	log       []string
	at        []time.Time // when each log entry was appended
	gor       int         // goroutine letters in log
	blocked   bool // inside a hanging Recv that only Reconnect/Remove can end
	exhausted bool // the script is used up (default hanging stream reached)
	iCred     int
	iDial     int
	iOpen     int
	iSend     int
	iStream   int
	nUpd      int64

	effMs       int           // effective receive timeout in ms (0 = none)
	maxWait     time.Duration // longest Recv call
	pending     bool // inside a blocking dial / stream open
	dialTimeout bool // Config.Timeout > 0: a blocking dial ends by itself
	peer        string // name of the next target of the case ("" if alone)
	incar int    // Add calls so far (selects the dialer name)

	mgr      *manager.Manager
	api      sync.Mutex // held by whoever issues API calls for this name
	reCount  int
	reUsed   bool

	gateCount  int           // occurrences of the gated callback kind so far
	gateClosed bool          // the gated callback is being held
	gateUsed   bool          // the gate closed once already
	gateCh     chan struct{} // closed to release
}

func (t *tgt) ev(s string, gor bool) {
	t.mu.Lock()
	t.log = append(t.log, s)
	t.at = append(t.at, time.Now())
	if gor {
		t.gor++
	}
	t.cond.Broadcast()
	t.mu.Unlock()
}

func pm(ok bool) string {
	if ok {
		return "+"
	}
	return "-"
}

func tape(tp []bool, i *int) bool {
	v := true
	if *i < len(tp) {
		v = tp[*i]
	}
	*i++
	return v
}

func at(tp []bool, i int) bool { return i < len(tp) && tp[i] }

// block parks the calling manager goroutine until ctx ends; selfEnding says
// whether that happens without outside help.
func (t *tgt) block(ctx context.Context, selfEnding bool) {
	t.mu.Lock()
	t.pending = true
	if !selfEnding {
		t.blocked = true
	}
	t.cond.Broadcast()
	t.mu.Unlock()
	<-ctx.Done()
	t.mu.Lock()
	t.pending = false
	if !selfEnding {
		t.blocked = false
	}
	t.mu.Unlock()
}

// registry of live targets by name (names are unique across the whole run)
var registry sync.Map

func lookup(name string) *tgt {
	v, ok := registry.Load(name)
	if !ok {
		return nil
	}
	return v.(*tgt)
}

func nameOf(ctx context.Context) string {
	md, ok := metadata.FromOutgoingContext(ctx)
	if !ok {
		return ""
	}
	if v := md.Get(manager.Target); len(v) > 0 {
		return v[0]
	}
	return ""
}

// strays counts environment calls / callbacks for names nobody registered.
var strays int64

// --- ConnectionManager ------------------------------------------------------

type connMgr struct{}

func (connMgr) Connection(ctx context.Context, addr, dialer string) (*grpc.ClientConn, func(), error) {
	t := lookup(nameOf(ctx))
	if t == nil {
		atomic.AddInt64(&strays, 1)
		return nil, func() {}, errors.New("unknown target")
	}
	t.mu.Lock()
	blk := at(t.spec.DialBlock, t.iDial)
	ok := tape(t.spec.Dial, &t.iDial)
	t.mu.Unlock()
	if blk {
		t.block(ctx, t.dialTimeout)
		t.ev("dial-", true)
		return nil, func() {}, ctx.Err()
	}
	t.ev("dial"+pm(ok), true)
	if !ok {
		return nil, func() {}, errors.New("refused")
	}
	return nil, func() { t.ev("done", true) }, nil
}

// --- the real connection.Manager, recorded ------------------------------------

type span struct{ start, end time.Time } // end zero = still in flight

// realCM wraps connection.Manager: the answer of Connection() is logged as the
// dial letter of the calling target; the dialers are scripted (the dial tape of
// the target whose call started the dial).  An error is "stale" when nothing
// that happened around the call explains it: the caller's dialer exists, its
// context is alive, the error is not that of a scripted dial which failed
// recently, and no call with an unknown dialer on that address was in flight.
type realCM struct {
	cm  *connection.Manager
	mu  sync.Mutex
	unk map[string][]*span
}

// dialErr is the error of one failed scripted dial.  connection.Manager hands
// it to every caller that joined that dial and then forgets the entry; the
// forgetting follows the failure at once, so a caller that STARTS long after
// the failure and still gets this very error has been served a stale entry.
type dialErr struct{ at time.Time }

func (*dialErr) Error() string { return "refused" }

const staleAfter = 2 * time.Second

func newRealCM() *realCM {
	r := &realCM{unk: map[string][]*span{}}
	cm, err := connection.NewManagerCustom(map[string]connection.Dial{connection.DEFAULT: r.dial, "alt": r.dial})
	if err != nil {
		vh.Die("connection.NewManagerCustom: %v", err)
	}
	r.cm = cm
	return r
}

func (r *realCM) dial(ctx context.Context, addr string, _ ...grpc.DialOption) (*grpc.ClientConn, error) {
	ok := true
	if t := lookup(nameOf(ctx)); t != nil {
		t.mu.Lock()
		blk := at(t.spec.DialBlock, t.iDial)
		ok = tape(t.spec.Dial, &t.iDial)
		t.mu.Unlock()
		if blk {
			// a dial that only ends with its context (grpc.WithBlock to an
			// unreachable address): the manager's dial timeout / Remove /
			// Reconnect must reach it
			t.block(ctx, t.dialTimeout)
			return nil, &dialErr{at: time.Now()}
		}
	} else {
		atomic.AddInt64(&strays, 1)
	}
	if !ok {
		return nil, &dialErr{at: time.Now()}
	}
	return nil, nil // the stream stub never looks at the connection
}

func (r *realCM) explained(addr string, start, end time.Time, err error) bool {
	if de, ok := err.(*dialErr); ok {
		return start.Sub(de.at) <= staleAfter
	}
	r.mu.Lock()
	defer r.mu.Unlock()
	for _, sp := range r.unk[addr] {
		if !sp.start.After(end) && (sp.end.IsZero() || !sp.end.Before(start)) {
			return true
		}
	}
	return false
}

func (r *realCM) Connection(ctx context.Context, addr, dialer string) (*grpc.ClientConn, func(), error) {
	t := lookup(nameOf(ctx))
	if t == nil {
		atomic.AddInt64(&strays, 1)
		return nil, func() {}, errors.New("unknown target")
	}
	known := dialer == connection.DEFAULT || dialer == "alt"
	start := time.Now()
	var sp *span
	if !known {
		sp = &span{start: start}
		r.mu.Lock()
		r.unk[addr] = append(r.unk[addr], sp)
		r.mu.Unlock()
	}
	conn, done, err := r.cm.Connection(ctx, addr, dialer)
	end := time.Now()
	if sp != nil {
		r.mu.Lock()
		sp.end = end
		r.mu.Unlock()
	}
	if err == nil {
		t.ev("dial+", true)
		return conn, func() { done(); t.ev("done", true) }, nil
	}
	t.ev("dial-", true)
	if known && ctx.Err() == nil && !r.explained(addr, start, end, err) {
		// the endpoint and the dialer are fine, nothing failed: a stale error
		t.ev("stall", false)
	}
	return nil, func() {}, err
}

// --- CredentialsClient ------------------------------------------------------

type creds struct{}

func (creds) Lookup(ctx context.Context, key string) (string, error) {
	t := lookup(key)
	if t == nil {
		atomic.AddInt64(&strays, 1)
		return "", errors.New("unknown target")
	}
	t.mu.Lock()
	ok := tape(t.spec.Cred, &t.iCred)
	t.mu.Unlock()
	t.ev("cred"+pm(ok), true)
	if !ok {
		return "", errors.New("no credentials")
	}
	return "pw", nil
}

// --- stream -----------------------------------------------------------------

type stream struct {
	grpc.ClientStream // unused, satisfies the interface
	ctx               context.Context
	t                 *tgt
	s                 Stream
	def               bool // default stream of an exhausted script
	i                 int
	late              bool // the next answer was already in flight: delivered even if ctx has ended
}

func openStream(ctx context.Context, _ *grpc.ClientConn) (gpb.GNMI_SubscribeClient, error) {
	t := lookup(nameOf(ctx))
	if t == nil {
		atomic.AddInt64(&strays, 1)
		return nil, errors.New("unknown target")
	}
	t.mu.Lock()
	oblk := at(t.spec.OpenBlock, t.iOpen)
	t.mu.Unlock()
	if oblk {
		t.mu.Lock()
		t.iOpen++
		t.mu.Unlock()
		t.block(ctx, false)
		t.ev("open-", true)
		return nil, ctx.Err()
	}
	t.mu.Lock()
	ok := tape(t.spec.Open, &t.iOpen)
	st := &stream{ctx: ctx, t: t}
	if ok {
		if t.iStream < len(t.spec.Streams) {
			st.s = t.spec.Streams[t.iStream]
		} else {
			st.s = Stream{End: "hang"}
			st.def = true
		}
		t.iStream++
	}
	t.mu.Unlock()
	t.ev("open"+pm(ok), true)
	if !ok {
		return nil, errors.New("cannot open stream")
	}
	return st, nil
}

func (s *stream) Send(*gpb.SubscribeRequest) error {
	s.t.mu.Lock()
	ok := tape(s.t.spec.Send, &s.t.iSend)
	s.t.mu.Unlock()
	s.t.ev("send"+pm(ok), true)
	if !ok {
		return errors.New("send failed")
	}
	return nil
}

func (s *stream) cancelled() (*gpb.SubscribeResponse, error) {
	s.t.ev("recv:cancel", true)
	return nil, s.ctx.Err()
}

func (s *stream) Recv() (*gpb.SubscribeResponse, error) {
	t0 := time.Now()
	defer func() {
		d := time.Since(t0)
		s.t.mu.Lock()
		if d > s.t.maxWait {
			s.t.maxWait = d
		}
		s.t.mu.Unlock()
	}()
	return s.recv()
}

func (s *stream) recv() (*gpb.SubscribeResponse, error) {
	for {
		if !s.late {
			select {
			case <-s.ctx.Done():
				return s.cancelled()
			default:
			}
		}
		s.late = false
		if s.i >= len(s.s.Msgs) {
			break
		}
		c := s.s.Msgs[s.i]
		s.i++
		switch c {
		case 'L':
			// the next answer arrives just AFTER the receive timeout has expired
			// (timer racing with a message in flight): this wait does not end
			// with the context, and the answer is handed over even though the
			// timeout goroutine may already have cancelled the stream
			d := 5 * time.Millisecond
			if s.t.effMs > 0 && s.t.effMs < longTimeoutMs {
				d = time.Duration(s.t.effMs)*time.Millisecond + 4*time.Millisecond
			}
			time.Sleep(d)
			s.late = true
			continue
		case 'w', 'W':
			d := 3 * time.Millisecond
			if c == 'W' {
				d = 30 * time.Millisecond // longer than the short receive timeout
			}
			select {
			case <-s.ctx.Done():
				return s.cancelled()
			case <-time.After(d):
			}
			continue
		case 'u', 'o', 'p', 'q':
			s.t.mu.Lock()
			s.t.nUpd++
			n := s.t.nUpd
			s.t.mu.Unlock()
			no := &gpb.Notification{Timestamp: n}
			switch c {
			case 'o':
				no.Prefix = &gpb.Path{Target: s.t.name}
			case 'p':
				if s.t.peer != "" {
					no.Prefix = &gpb.Path{Target: s.t.peer}
				} else {
					no.Prefix = &gpb.Path{Target: "nobody"}
				}
			case 'q':
				no.Prefix = &gpb.Path{Target: "nobody"}
			}
			s.t.ev(fmt.Sprintf("recv:u%d", n), true)
			return &gpb.SubscribeResponse{Response: &gpb.SubscribeResponse_Update{Update: no}}, nil
		case 's':
			s.t.ev("recv:s", true)
			return &gpb.SubscribeResponse{Response: &gpb.SubscribeResponse_SyncResponse{SyncResponse: true}}, nil
		case 'e':
			s.t.ev("recv:e", true)
			return &gpb.SubscribeResponse{Response: &gpb.SubscribeResponse_Error{}}, nil
		default: // 'n'
			s.t.ev("recv:n", true)
			return &gpb.SubscribeResponse{}, nil
		}
	}
	switch s.s.End {
	case "err":
		s.t.ev("recv:err", true)
		return nil, errors.New("stream broke")
	case "eof":
		s.t.ev("recv:eof", true)
		return nil, io.EOF
	case "canceled": // the PEER reports a cancellation; our context is alive
		s.t.ev("recv:err", true)
		return nil, context.Canceled
	case "deadline":
		s.t.ev("recv:err", true)
		return nil, context.DeadlineExceeded
	}
	// hang
	s.t.mu.Lock()
	if s.def {
		s.t.exhausted = true
	}
	if !s.t.timeout {
		s.t.blocked = true
	}
	s.t.cond.Broadcast()
	s.t.mu.Unlock()
	<-s.ctx.Done()
	s.t.mu.Lock()
	s.t.blocked = false
	s.t.mu.Unlock()
	return s.cancelled()
}

// --- callbacks --------------------------------------------------------------

func cb(name, what string) {
	t := lookup(name)
	if t == nil {
		atomic.AddInt64(&strays, 1)
		return
	}
	if g := t.spec.Gate; g != nil {
		kind := strings.TrimRight(what, "0123456789")
		hold := false
		t.mu.Lock()
		if kind == g.Cb && !t.gateUsed {
			t.gateCount++
			if t.gateCount == g.N {
				t.gateUsed, t.gateClosed, hold = true, true, true
			}
		}
		t.mu.Unlock()
		if hold {
			t.ev("gateC", false)
			<-t.gateCh
		}
	}
	if g := t.spec.Reenter; g != nil && t.mgr != nil {
		kind := strings.TrimRight(what, "0123456789")
		fire := false
		t.mu.Lock()
		if kind == g.Cb && !t.reUsed {
			t.reCount++
			if t.reCount == g.N {
				t.reUsed, fire = true, true
			}
		}
		t.mu.Unlock()
		if fire && t.api.TryLock() {
			t.ev("rcC", false)
			ch := make(chan error, 1)
			go func() { ch <- t.mgr.Reconnect(t.name) }()
			select {
			case err := <-ch:
				t.ev("rcR"+pm(err == nil), false)
			case <-time.After(hangAfter):
				// Reconnect cannot be called from a callback: a Hang observation
				t.ev("hang", false)
			}
			t.api.Unlock()
		}
	}
	if t.cbDelay > 0 {
		time.Sleep(t.cbDelay)
	}
	t.ev(what, true)
}

// goid returns the id of the calling goroutine.
func goid() int64 {
	var b [64]byte
	n := runtime.Stack(b[:], false)
	f := strings.Fields(string(b[:n]))
	if len(f) < 2 {
		return -1
	}
	id, _ := strconv.ParseInt(f[1], 10, 64)
	return id
}

// observeState polls the goroutine dump until goroutine *id is parked with a
// wait reason containing reason and (if fn != "") has fn on its stack; gives
// up when done is closed or after d.  Only ever used to decide whether to go
// on with an overlap experiment: not seeing the state skips the experiment.
func observeState(id *int64, reason, fn string, done <-chan struct{}, d time.Duration) bool {
	deadline := time.Now().Add(d)
	buf := make([]byte, 4<<20)
	for time.Now().Before(deadline) {
		select {
		case <-done:
			return false
		default:
		}
		if g := atomic.LoadInt64(id); g > 0 {
			n := runtime.Stack(buf, true)
			dump := string(buf[:n])
			hdr := fmt.Sprintf("goroutine %d [", g)
			if i := strings.Index(dump, hdr); i >= 0 {
				blk := dump[i:]
				if j := strings.Index(blk, "\n\n"); j >= 0 {
					blk = blk[:j]
				}
				line := blk
				if j := strings.Index(blk, "\n"); j >= 0 {
					line = blk[:j]
				}
				if strings.Contains(line, reason) && (fn == "" || strings.Contains(blk, fn)) {
					return true
				}
			}
		}
		time.Sleep(300 * time.Microsecond)
	}
	return false
}

// ---------------------------------------------------------------------------
// running one case

var caseSeq int64

const (
	stallAfter = 6 * time.Second
	hangAfter  = 6 * time.Second
)

// waitFor blocks until pred holds (called with t.mu held) or the deadline
// passes; reports whether pred held.
func (t *tgt) waitFor(d time.Duration, pred func() bool) bool {
	deadline := time.Now().Add(d)
	tm := time.AfterFunc(d+time.Millisecond, func() {
		t.mu.Lock()
		t.cond.Broadcast()
		t.mu.Unlock()
	})
	defer tm.Stop()
	t.mu.Lock()
	defer t.mu.Unlock()
	for !pred() {
		if !time.Now().Before(deadline) {
			return false
		}
		t.cond.Wait()
	}
	return true
}

// gapsOf: for every "ME" followed in the same incarnation by another goroutine
// letter, the microseconds between the two log appends.
func gapsOf(log []string, at []time.Time) []int64 {
	gaps := []int64{}
	var last, prevME, incStart time.Time
	have, xadd, havePrev := false, false, false
	j := 0 // failures in a row for which the backoff was certainly not reset
	for i, e := range log {
		switch e {
		case "addC", "rmR+", "xadd+", "xadd-":
			have, xadd, havePrev, j = false, false, false, 0
			incStart = at[i]
			continue
		case "xaddC":
			// a new monitor may start (at once, no backoff) any time from here
			// until the call returns
			have, havePrev, j = false, false, 0
			xadd = true
			continue
		case "add+", "add-", "rcC", "rcR+", "rcR-", "rmC", "rmR-", "hang", "stall", "addbad+", "addbad-",
			"gateC", "gateO", "xrmC", "xrmR+", "xrmR-", "xrcC", "xrcR+", "xrcR-":
			continue
		}
		if xadd {
			continue
		}
		if have {
			// the j-th delay in a row is drawn from [0.5,1.5] x min(base*1.5^j, max):
			// report the gap scaled back to the first delay's scale, so that one
			// bound (90% of base/2) judges every position
			g := at[i].Sub(last).Microseconds()
			gaps = append(gaps, g*int64(retryBase/time.Microsecond)/2/boundUs(j))
			have = false
		}
		if e == "ME" {
			// was the backoff possibly reset at this failure (attempt longer than
			// 2*RetryMaxDelay)?  The attempt started no earlier than the previous
			// MonitorError plus the smallest delay possible then.
			start := incStart
			if havePrev {
				start = prevME.Add(time.Duration(boundUs(j)) * time.Microsecond)
			}
			if havePrev && at[i].Sub(start) < 2*retryMax-time.Millisecond {
				j++
			} else {
				j = 0
			}
			last, have = at[i], true
			prevME, havePrev = at[i], true
		}
	}
	return gaps
}

// boundUs: the smallest delay (microseconds) the policy can produce for the
// j-th failure in a row since the backoff was last reset.
func boundUs(j int) int64 {
	iv := float64(retryBase / time.Microsecond)
	for k := 0; k < j; k++ {
		iv *= 1.5
	}
	if m := float64(retryMax / time.Microsecond); iv > m {
		iv = m
	}
	return int64(iv / 2)
}

func runCase(c Case, window time.Duration) ([][]string, [][]int64, []int64) {
	seq := atomic.AddInt64(&caseSeq, 1)
	var cmgr manager.ConnectionManager = connMgr{}
	if c.RealCM {
		cmgr = newRealCM()
	}
	m, err := manager.NewManager(manager.Config{
		Connect:           func(n string) { cb(n, "Connect") },
		Reset:             func(n string) { cb(n, "Reset") },
		Sync:              func(n string) { cb(n, "Sync") },
		Update:            func(n string, u *gpb.Notification) { cb(n, fmt.Sprintf("Update%d", u.GetTimestamp())) },
		ConnectError:      func(n string, _ error) { cb(n, "CE") },
		MonitorError:      func(n string, _ error) { cb(n, "ME") },
		Credentials:       creds{},
		ConnectionManager: cmgr,
		ReceiveTimeout:    time.Duration(c.MgrTimeoutMs) * time.Millisecond,
		Timeout:           time.Duration(c.DialTimeoutMs) * time.Millisecond,
	})
	if err != nil {
		vh.Die("NewManager: %v", err)
	}
	ts := make([]*tgt, len(c.Targets))
	for i, sp := range c.Targets {
		t := &tgt{name: fmt.Sprintf("c%d-t%d", seq, i), spec: sp}
		t.timeout = mayExpire(c, sp)
		t.effMs = effTimeoutMs(c, sp)
		t.cbDelay = time.Duration(c.CbDelayUs) * time.Microsecond
		t.cond = sync.NewCond(&t.mu)
		t.gateCh = make(chan struct{})
		t.dialTimeout = c.DialTimeoutMs > 0
		if len(c.Targets) > 1 {
			t.peer = fmt.Sprintf("c%d-t%d", seq, (i+1)%len(c.Targets))
		}
		ts[i] = t
		registry.Store(t.name, t)
	}
	var wg sync.WaitGroup
	for i := range ts {
		var ops []Op
		for _, o := range c.Ops {
			if o.T == i {
				ops = append(ops, o)
			}
		}
		wg.Add(1)
		go func(t *tgt, ops []Op) {
			defer wg.Done()
			control(m, t, ops)
		}(ts[i], ops)
	}
	wg.Wait()
	time.Sleep(window) // post-Remove listening window
	out := make([][]string, len(ts))
	gaps := make([][]int64, len(ts))
	waits := make([]int64, len(ts))
	for i, t := range ts {
		t.mu.Lock()
		out[i] = append([]string{}, t.log...)
		gaps[i] = gapsOf(t.log, t.at)
		waits[i] = t.maxWait.Microseconds()
		t.mu.Unlock()
		// the name stays registered: a late callback must still find its log
	}
	return out, gaps, waits
}

// mayExpire: the effective receive timeout (target meta overrides the
// manager's) is short enough to fire during a run.
func effTimeoutMs(c Case, sp TargetSpec) int {
	eff := c.MgrTimeoutMs
	if sp.TimeoutMs > 0 {
		eff = sp.TimeoutMs
	}
	if sp.TimeoutRaw != "" {
		// manager.targetRecvTimeout: a value that parses wins (even <= 0, which
		// disables the timeout), an unparsable one falls back to the manager's
		if d, err := time.ParseDuration(sp.TimeoutRaw); err == nil {
			eff = int(d / time.Millisecond)
		} else {
			eff = c.MgrTimeoutMs
		}
	}
	return eff
}

func mayExpire(c Case, sp TargetSpec) bool {
	eff := effTimeoutMs(c, sp)
	return eff > 0 && eff < longTimeoutMs
}

func protoTarget(t *tgt) *tpb.Target {
	p := &tpb.Target{}
	for h := 0; h < t.spec.Hops; h++ {
		p.Addresses = append(p.Addresses, fmt.Sprintf("addr%d:1", h))
		if t.spec.DupAddr {
			p.Addresses = append(p.Addresses, fmt.Sprintf("addr%d:1;x%d;y", h, h))
		}
	}
	if t.spec.Creds {
		p.Credentials = &tpb.Credentials{Username: "u", PasswordId: t.name}
	}
	if t.spec.TimeoutMs > 0 {
		p.Meta = map[string]string{"receive_timeout": fmt.Sprintf("%dms", t.spec.TimeoutMs)}
	}
	if t.spec.TimeoutRaw != "" {
		p.Meta = map[string]string{"receive_timeout": t.spec.TimeoutRaw}
	}
	if n := len(t.spec.Dialers); n > 0 {
		k := t.incar
		if k >= n {
			k = n - 1
		}
		p.Dialer = t.spec.Dialers[k]
	}
	t.incar++
	return p
}

func control(m *manager.Manager, t *tgt, ops []Op) {
	t.mu.Lock()
	t.mgr = m
	t.mu.Unlock()
	sr := &gpb.SubscribeRequest{Request: &gpb.SubscribeRequest_Subscribe{Subscribe: &gpb.SubscriptionList{}}}
	managed := false
	dead := false    // a watchdog fired: stop issuing calls that may block
	stalled := false // the stall watchdog fired: do not wait again
	// guarded: an API call that does not return within hangAfter is a Hang
	// observation, not a stuck harness
	guarded := func(f func() error) (error, bool) {
		ch := make(chan error, 1)
		go func() { ch <- f() }()
		select {
		case err := <-ch:
			return err, true
		case <-time.After(hangAfter):
			t.ev("hang", false)
			dead = true
			return nil, false
		}
	}
	add := func() {
		t.ev("addC", false)
		pt := protoTarget(t)
		err, ok := guarded(func() error { return m.Add(t.name, pt, sr) })
		if !ok {
			return
		}
		t.ev("add"+pm(err == nil), false)
		if err == nil {
			managed = true
		}
	}
	remove := func() {
		t.ev("rmC", false)
		ch := make(chan error, 1)
		go func() { ch <- m.Remove(t.name) }()
		select {
		case err := <-ch:
			t.ev("rmR"+pm(err == nil), false)
			if err == nil {
				managed = false
			}
		case <-time.After(hangAfter):
			t.ev("hang", false)
			dead = true
		}
	}
	openGate := func() {
		t.mu.Lock()
		held := t.gateClosed
		t.gateClosed = false
		t.gateUsed = true // disarm: no callback is held from now on
		t.mu.Unlock()
		if held {
			t.ev("gateO", false)
			close(t.gateCh)
		}
	}
	gateHeld := func() bool {
		t.mu.Lock()
		defer t.mu.Unlock()
		return t.gateClosed
	}
	// overlap: Remove by this goroutine; while it is in progress a second
	// goroutine calls x for the same name; then the held callback is released.
	overlap := func(x string) {
		t.ev("rmC", false)
		var aID, bID int64
		aDone, bDone := make(chan struct{}), make(chan struct{})
		var aErr, bErr error
		go func() {
			atomic.StoreInt64(&aID, goid())
			aErr = m.Remove(t.name)
			t.ev("rmR"+pm(aErr == nil), false)
			close(aDone)
		}()
		started := false
		if observeState(&aID, "chan receive", "manager.(*Manager).Remove", aDone, 400*time.Millisecond) {
			started = true
			tag := map[string]string{"add": "xadd", "remove": "xrm", "reconnect": "xrc"}[x]
			t.ev(tag+"C", false)
			go func() {
				atomic.StoreInt64(&bID, goid())
				switch x {
				case "add":
					bErr = m.Add(t.name, protoTarget(t), sr)
					t.ev("xadd"+pm(bErr == nil), false)
				case "remove":
					bErr = m.Remove(t.name)
					t.ev("xrmR"+pm(bErr == nil), false)
				default:
					bErr = m.Reconnect(t.name)
					t.ev("xrcR"+pm(bErr == nil), false)
				}
				close(bDone)
			}()
			// give the call time to reach the manager lock (or to return)
			observeState(&bID, "sync.Mutex.Lock", "", bDone, 100*time.Millisecond)
		}
		openGate()
		select {
		case <-aDone:
			if aErr == nil {
				managed = false
			}
		case <-time.After(hangAfter):
			t.ev("hang", false)
			dead = true
			return
		}
		if started {
			select {
			case <-bDone:
				if bErr == nil && x == "add" {
					managed = true
				}
				if bErr == nil && x == "remove" {
					managed = false
				}
			case <-time.After(hangAfter):
				t.ev("hang", false)
				dead = true
			}
		}
	}
	addbad := func(kind string) {
		var err error
		var ok bool
		switch kind {
		case "nilreq":
			pt := protoTarget(t)
			t.incar-- // not an incarnation
			err, ok = guarded(func() error { return m.Add(t.name, pt, nil) })
		case "niltarget":
			err, ok = guarded(func() error { return m.Add(t.name, nil, sr) })
		case "noname":
			pt := protoTarget(t)
			t.incar--
			err, ok = guarded(func() error { return m.Add("", pt, sr) })
		default: // noaddr
			err, ok = guarded(func() error { return m.Add(t.name, &tpb.Target{}, sr) })
		}
		if ok {
			t.ev("addbad"+pm(err == nil), false)
		}
	}
	t.api.Lock()
	if t.spec.BadFirst != "" {
		addbad(t.spec.BadFirst)
	}
	if !dead {
		add()
	}
	t.api.Unlock()
	for _, o := range ops {
		if dead {
			break
		}
		if managed {
			ok := t.waitFor(stallAfter, func() bool {
				if o.K == "overlap" {
					return t.gateClosed || t.blocked || t.exhausted
				}
				if o.At < 0 {
					return t.pending || t.blocked || t.exhausted || t.gateClosed
				}
				return t.gor >= o.At || t.blocked || t.exhausted || t.gateClosed
			})
			if !ok {
				t.ev("stall", false)
				stalled = true
				break
			}
		}
		if o.K == "overlap" && managed && gateHeld() {
			t.api.Lock()
			overlap(o.X)
			t.api.Unlock()
			continue
		}
		openGate() // never leave a callback held across another action
		t.api.Lock()
		switch o.K {
		case "reconnect":
			t.ev("rcC", false)
			if err, ok := guarded(func() error { return m.Reconnect(t.name) }); ok {
				t.ev("rcR"+pm(err == nil), false)
			}
		case "remove", "overlap":
			remove()
		case "add":
			add()
		case "addbad":
			addbad(o.X)
		case "readd":
			remove()
			if !dead {
				add()
			}
		}
		t.api.Unlock()
	}
	openGate()
	if managed && !dead {
		if !stalled && !t.waitFor(stallAfter, func() bool { return t.blocked || t.exhausted || t.gateClosed }) {
			t.ev("stall", false)
		}
		openGate()
		t.api.Lock()
		remove()
		t.api.Unlock()
	}
	openGate()
}

// ---------------------------------------------------------------------------
// Gallina printing

func evTerm(s string) string {
	switch s {
	case "addC":
		return "EAddCalled"
	case "add+":
		return "EAdd true"
	case "add-":
		return "EAdd false"
	case "rcC":
		return "EReconnectCalled"
	case "rcR+":
		return "EReconnectReturned true"
	case "rcR-":
		return "EReconnectReturned false"
	case "rmC":
		return "ERemoveCalled"
	case "rmR+":
		return "ERemoveReturned true"
	case "rmR-":
		return "ERemoveReturned false"
	case "gateC":
		return "EGateClosed"
	case "gateO":
		return "EGateOpen"
	case "xaddC":
		return "XCalled KAdd"
	case "xadd+":
		return "XReturned KAdd true"
	case "xadd-":
		return "XReturned KAdd false"
	case "xrmC":
		return "XCalled KRemove"
	case "xrmR+":
		return "XReturned KRemove true"
	case "xrmR-":
		return "XReturned KRemove false"
	case "xrcC":
		return "XCalled KReconnect"
	case "xrcR+":
		return "XReturned KReconnect true"
	case "xrcR-":
		return "XReturned KReconnect false"
	case "addbad+":
		return "EAddInvalid true"
	case "addbad-":
		return "EAddInvalid false"
	case "hang":
		return "EHang"
	case "stall":
		return "EStall"
	case "cred+":
		return "ECred true"
	case "cred-":
		return "ECred false"
	case "dial+":
		return "EDial true"
	case "dial-":
		return "EDial false"
	case "done":
		return "EDone"
	case "open+":
		return "EOpen true"
	case "open-":
		return "EOpen false"
	case "send+":
		return "ESend true"
	case "send-":
		return "ESend false"
	case "recv:s":
		return "ERecv (RMsg MSync)"
	case "recv:e":
		return "ERecv (RMsg MErrResp)"
	case "recv:n":
		return "ERecv (RMsg MNil)"
	case "recv:err":
		return "ERecv RErr"
	case "recv:eof":
		return "ERecv REof"
	case "recv:cancel":
		return "ERecv RCancel"
	case "Connect":
		return "CConnect"
	case "Sync":
		return "CSync"
	case "Reset":
		return "CReset"
	case "CE":
		return "CConnErr"
	case "ME":
		return "CMonErr"
	}
	if strings.HasPrefix(s, "recv:u") {
		return "ERecv (RMsg (MUpdate " + s[len("recv:u"):] + "))"
	}
	if strings.HasPrefix(s, "Update") {
		return "CUpdate " + s[len("Update"):]
	}
	vh.Die("unknown event %q", s)
	return ""
}

func caseTerm(c Case) string {
	ts := make([]string, len(c.Obs))
	for i := range c.Obs {
		sp := c.Targets[i%len(c.Targets)]
		evs := make([]string, len(c.Obs[i]))
		for j, e := range c.Obs[i] {
			evs[j] = evTerm(e)
		}
		gs := []string{}
		if i < len(c.Gaps) {
			for _, g := range c.Gaps[i] {
				gs = append(gs, vh.Z(g))
			}
		}
		tmoFlag := mayExpire(c, sp)
		if eff := effTimeoutMs(c, sp); tmoFlag && eff >= 40 && i < len(c.MaxWaitUs) && c.MaxWaitUs[i]*4 < int64(eff)*1000 {
			tmoFlag = false // no Recv came anywhere near the timeout: it cannot have been due
		}
		ts[i] = fmt.Sprintf("mktg %s %s %s %s %s %s", vh.Bool(sp.Creds), vh.Nat(sp.Hops),
			vh.Bool(tmoFlag), vh.Z(minGapUs), vh.List(gs), vh.List(evs))
	}
	return vh.List(ts)
}

// ---------------------------------------------------------------------------
// generators

func normalize(c *Case) {
	for i := range c.Targets {
		if c.Targets[i].Hops < 1 {
			c.Targets[i].Hops = 1
		}
		if c.Targets[i].Hops > 3 {
			c.Targets[i].Hops = 3
		}
	}
	ops := c.Ops[:0:0]
	for _, o := range c.Ops {
		if o.T >= 0 && o.T < len(c.Targets) {
			ops = append(ops, o)
		}
	}
	c.Ops = ops
}

const tmo = 12 // ms, receive timeout used when enabled

// retry policy set by main; minGapUs is 90% of the smallest delay the backoff
// policy can produce (RetryBaseDelay * (1 - RetryRandomization)).
const (
	retryBase = time.Millisecond
	retryMax  = 3 * time.Millisecond
	minGapUs  = 450
)

// scripts of the systematic family: each exercises a few branches; control
// actions are then placed at every position of the baseline log.
func systematicScripts() []TargetSpec {
	return []TargetSpec{
		// dial refused; stream that breaks before data; data then EOF
		{Hops: 1, Dial: []bool{false, true, true}, Streams: []Stream{{"", "err"}, {"usu", "eof"}}},
		// credentials failure, open failure, send failure, then sync-first stream
		{Creds: true, Hops: 1, Cred: []bool{false, true}, Open: []bool{false, true, true}, Send: []bool{false, true},
			Streams: []Stream{{"sue", "err"}}},
		// two next hops: both refused, then first refused second ok; error / nil responses first
		{Hops: 2, Dial: []bool{false, false, false, true}, Streams: []Stream{{"eu", "eof"}, {"nsu", "err"}}},
		// hanging stream ended only from outside (no timeout)
		{Hops: 1, Streams: []Stream{{"u", "hang"}, {"s", "eof"}}},
		// hanging streams ended by the receive timeout
		{Hops: 1, TimeoutMs: tmo, Streams: []Stream{{"", "hang"}, {"us", "hang"}, {"u", "eof"}}},
		// slow but live stream with a timeout: the timer is re-armed per message
		{Hops: 1, TimeoutMs: tmo, Streams: []Stream{{"uwuwuwuws", "err"}}},
		// receive timer armed but far away: the timeout goroutine exists and must stay quiet
		{Hops: 1, TimeoutMs: longTimeoutMs, Streams: []Stream{{"us", "eof"}, {"u", "hang"}, {"su", "err"}}},
	}
}

// overlapCases: a callback of the old session is held, Remove is issued, and
// while it is in progress a second goroutine calls Add / Remove / Reconnect for
// the same name.
func overlapCases() []Case {
	scripts := []TargetSpec{
		{Hops: 1, Dial: []bool{false, true, true, true}, Streams: []Stream{{"usu", "eof"}, {"us", "hang"}, {"su", "err"}}},
		{Hops: 1, TimeoutMs: longTimeoutMs, Streams: []Stream{{"su", "err"}, {"u", "hang"}, {"us", "eof"}}},
	}
	gates := [][]Gate{
		{{"CE", 1}, {"ME", 1}, {"Connect", 1}, {"Update", 1}, {"Sync", 1}, {"Update", 2}, {"Reset", 1}, {"CE", 2}, {"ME", 2}, {"Connect", 2}},
		{{"Connect", 1}, {"Update", 1}, {"Reset", 1}, {"ME", 1}, {"Update", 2}},
	}
	var out []Case
	for i, sp := range scripts {
		for _, g := range gates[i] {
			for _, x := range []string{"add", "remove", "reconnect"} {
				sp2 := sp
				g2 := g
				sp2.Gate = &g2
				c := Case{Family: "overlap", Targets: []TargetSpec{sp2}, Ops: []Op{{T: 0, K: "overlap", X: x}}}
				if len(out)%4 == 3 {
					c.CbDelayUs = 200
				}
				out = append(out, c)
			}
		}
	}
	return out
}

// realCMCases: the Manager on the real connection.Manager.
func realCMCases() []Case {
	var out []Case
	good := []Stream{{"us", "eof"}, {"ou", "hang"}, {"s", "err"}}
	// an unknown dialer name in the configuration, fixed when the target is added again
	for _, at := range []int{2, 3, 4, 6, 8} {
		out = append(out, Case{Family: "realcm", RealCM: true,
			Targets: []TargetSpec{{Hops: 1, Dialers: []string{"bogus", ""}, Streams: good}},
			Ops:     []Op{{T: 0, At: at, K: "readd"}}})
		out = append(out, Case{Family: "realcm", RealCM: true,
			Targets: []TargetSpec{{Hops: 1, Dialers: []string{"bogus", "alt"}, Dial: []bool{false, true}, Streams: good}},
			Ops:     []Op{{T: 0, At: at, K: "readd"}}})
	}
	// two targets on one address: one with an unknown dialer (removed after a while), one fine
	for _, at := range []int{2, 4, 6, 10} {
		out = append(out, Case{Family: "realcm", RealCM: true,
			Targets: []TargetSpec{
				{Hops: 1, Dialers: []string{"bogus"}},
				{Hops: 1, Dial: []bool{false, false, false, true, true, true}, Streams: good}},
			Ops: []Op{{T: 0, At: at, K: "remove"}}})
		out = append(out, Case{Family: "realcm", RealCM: true,
			Targets: []TargetSpec{
				{Hops: 1, Dialers: []string{"bogus", "alt"}, Streams: []Stream{{"u", "eof"}}},
				{Hops: 1, Dialers: []string{"alt"}, Dial: []bool{false, true, false, true}, Streams: good}},
			Ops: []Op{{T: 0, At: at, K: "readd"}, {T: 1, At: at + 3, K: "reconnect"}}})
	}
	// dial failures followed by success, one and two hops, shared address, both dialers
	for _, hops := range []int{1, 2} {
		for _, d := range []string{"", "alt"} {
			out = append(out, Case{Family: "realcm", RealCM: true,
				Targets: []TargetSpec{
					{Hops: hops, Dialers: []string{d}, Dial: []bool{false, false, true, false, true}, Streams: good},
					{Hops: 1, Dial: []bool{true, false, true}, Streams: []Stream{{"psq", "eof"}, {"u", "hang"}}}},
				Ops: []Op{{T: 0, At: 9, K: "reconnect"}, {T: 1, At: 5, K: "readd"}}})
		}
	}
	return out
}

// blockingCases: environment calls that only end with their context.
func blockingCases() []Case {
	var out []Case
	good := []Stream{{"us", "eof"}, {"u", "hang"}}
	for _, real := range []bool{false, true} {
		// the address is unreachable for two attempts (the dial blocks until the
		// manager's dial timeout), then reachable: ConnectError / MonitorError
		// twice, then a session
		base := Case{Family: "blocking", RealCM: real, DialTimeoutMs: 120,
			Targets: []TargetSpec{{Hops: 1, DialBlock: []bool{true, true}, Streams: good}}}
		out = append(out, base)
		for _, k := range []string{"remove", "reconnect", "readd"} {
			c := base
			c.Ops = []Op{{T: 0, At: -1, K: k}}
			out = append(out, c)
			c2 := base
			c2.Ops = []Op{{T: 0, At: 3, K: k}} // during the second pending dial
			out = append(out, c2)
		}
		// a second target on the same address joins the pending dial
		out = append(out, Case{Family: "blocking", RealCM: real, DialTimeoutMs: 120,
			Targets: []TargetSpec{
				{Hops: 1, DialBlock: []bool{true, false, true}, Streams: good},
				{Hops: 1, Dial: []bool{true, false, true}, Streams: []Stream{{"su", "eof"}, {"", "hang"}}}},
			Ops: []Op{{T: 1, At: -1, K: "reconnect"}, {T: 0, At: -1, K: "remove"}}})
		// two hops, the first one unreachable
		out = append(out, Case{Family: "blocking", RealCM: real, DialTimeoutMs: 100,
			Targets: []TargetSpec{{Hops: 2, DialBlock: []bool{true, false, true, false}, Streams: good}},
			Ops:     []Op{{T: 0, At: 8, K: "reconnect"}}})
		// a stream open that never answers: only Reconnect / Remove end it
		for _, k := range []string{"remove", "reconnect", "readd"} {
			out = append(out, Case{Family: "blocking", RealCM: real,
				Targets: []TargetSpec{{Hops: 1, OpenBlock: []bool{true, false, true}, Streams: good}},
				Ops:     []Op{{T: 0, At: -1, K: k}}})
		}
	}
	// no dial timeout configured (injected connection manager only): the
	// pending dial is ended by Reconnect / Remove alone
	for _, k := range []string{"remove", "reconnect", "readd"} {
		out = append(out, Case{Family: "blocking",
			Targets: []TargetSpec{{Hops: 1, DialBlock: []bool{true, false, true}, Streams: good}},
			Ops:     []Op{{T: 0, At: -1, K: k}}})
	}
	return out
}

// campaignCases: inputs the code must treat like their plain counterparts
// (duplicate / chained address lines, literal timeout meta values, peer-side
// cancellation errors) and a slow but live stream under a receive timeout.
func campaignCases() []Case {
	good := []Stream{{"us", "eof"}, {"u", "hang"}}
	slow := strings.Repeat("uw", 18) + "s" // 54 ms of 3 ms pauses under a 40 ms timeout
	out := []Case{
		{Targets: []TargetSpec{{Hops: 2, DupAddr: true, Dial: []bool{false, true, false, false, true, true}, Streams: good}}},
		{Targets: []TargetSpec{{Hops: 1, DupAddr: true, Dial: []bool{false, true}, Streams: good}}, RealCM: true},
		{Targets: []TargetSpec{{Hops: 1, TimeoutMs: 40, Streams: []Stream{{slow, "err"}, {slow, "eof"}}}}},
		{MgrTimeoutMs: 40, Targets: []TargetSpec{{Hops: 1, Streams: []Stream{{slow, "eof"}}}}},
		{Targets: []TargetSpec{{Hops: 1, Streams: []Stream{{"u", "deadline"}, {"s", "canceled"}, {"", "deadline"}, {"us", "eof"}}}}},
		{Targets: []TargetSpec{{Hops: 1, TimeoutMs: tmo, Streams: []Stream{{"su", "canceled"}, {"u", "deadline"}}}}},
		// unparsable meta: the manager-wide timeout must end the silent stream
		{MgrTimeoutMs: tmo, Targets: []TargetSpec{{Hops: 1, TimeoutRaw: "soon", Streams: []Stream{{"u", "hang"}, {"s", "eof"}}}}},
		// the target's own (far away) value wins over the manager-wide one
		{MgrTimeoutMs: tmo, Targets: []TargetSpec{{Hops: 1, TimeoutMs: longTimeoutMs, Streams: []Stream{{"uWu", "eof"}, {"sWs", "err"}}}}},
		// a zero / negative value disables the timeout for that target
		{MgrTimeoutMs: tmo, Targets: []TargetSpec{{Hops: 1, TimeoutRaw: "0s", Streams: []Stream{{"uWu", "eof"}, {"s", "eof"}}}}},
		{MgrTimeoutMs: tmo, Targets: []TargetSpec{{Hops: 1, TimeoutRaw: "-5ms", Streams: []Stream{{"", "hang"}, {"s", "eof"}}}},
			Ops: []Op{{T: 0, At: 4, K: "readd"}}},
		// many quick failures in a row: the delay must grow
		{Targets: []TargetSpec{{Hops: 1, Dial: []bool{false, false, false, false, false, false, false, true}, Streams: good}}},
		{Targets: []TargetSpec{{Hops: 1, Open: []bool{false, false, false, false, false, false, true}, Streams: good}}, RealCM: true},
	}
	// the receive timer fires while a message is in flight: the message is
	// delivered after the timeout, then the stream must still end with Reset and
	// be retried, and Remove must return
	for _, st := range [][]Stream{
		{{"uLu", "eof"}, {"s", "eof"}},
		{{"Lsu", "err"}, {"u", "hang"}},
		{{"uLuLs", "hang"}, {"LuL", "eof"}, {"u", "eof"}},
	} {
		out = append(out, Case{Targets: []TargetSpec{{Hops: 1, TimeoutMs: tmo, Streams: st}}})
		out = append(out, Case{MgrTimeoutMs: tmo, Targets: []TargetSpec{{Hops: 1, Streams: st}}, CbDelayUs: 200})
		out = append(out, Case{Targets: []TargetSpec{{Hops: 1, TimeoutMs: tmo, Streams: st}}, Ops: []Op{{T: 0, At: 7, K: "remove"}}})
		out = append(out, Case{Targets: []TargetSpec{{Hops: 1, Streams: st}}}) // no timeout: a plain 5 ms pause
	}
	// refused calls followed by calls on the same name and on other names: an
	// Add refused for each reason the code has, before the first valid Add, while
	// managed, and after Remove; then Add / Remove / Reconnect
	for _, kind := range []string{"noaddr", "nilreq", "niltarget", "noname"} {
		out = append(out, Case{Targets: []TargetSpec{
			{Hops: 1, BadFirst: kind, Streams: []Stream{{"us", "eof"}, {"u", "hang"}}},
			{Hops: 1, Dial: []bool{false, true}, Streams: []Stream{{"su", "err"}, {"", "hang"}}}},
			Ops: []Op{{T: 0, At: 4, K: "addbad", X: kind}, {T: 0, At: 6, K: "reconnect"},
				{T: 0, At: 9, K: "remove"}, {T: 0, K: "addbad", X: kind}, {T: 0, K: "remove"},
				{T: 0, K: "reconnect"}, {T: 0, K: "add"}, {T: 1, At: 5, K: "addbad", X: kind},
				{T: 1, At: 8, K: "readd"}}})
		out = append(out, Case{Targets: []TargetSpec{{Hops: 1, BadFirst: kind, Streams: []Stream{{"u", "hang"}}}},
			Ops: []Op{{T: 0, At: 0, K: "remove"}, {T: 0, K: "addbad", X: kind}, {T: 0, K: "add"},
				{T: 0, At: 3, K: "addbad", X: kind}, {T: 0, At: 3, K: "add"}}})
	}
	// a callback that calls Reconnect for its own target before returning
	for _, g := range []Gate{{"Connect", 1}, {"Update", 1}, {"Update", 2}, {"Sync", 1}, {"Reset", 1}, {"CE", 2}, {"ME", 1}} {
		g2 := g
		out = append(out, Case{Targets: []TargetSpec{{Hops: 1, Dial: []bool{false, true}, Reenter: &g2,
			Streams: []Stream{{"usu", "eof"}, {"us", "err"}, {"u", "hang"}}}}})
	}
	for i := range out {
		out[i].Family = "campaign"
	}
	return append(out, out...)
}

// prefixCases: updates labelled with another name (managed, removed, unknown).
func prefixCases() []Case {
	var out []Case
	lab := []Stream{{"opqu", "eof"}, {"psou", "hang"}, {"qp", "err"}}
	for _, at := range []int{0, 3, 8, 14} {
		// the labelled name is removed early / at some point / stays managed
		out = append(out, Case{Family: "prefix",
			Targets: []TargetSpec{{Hops: 1, Streams: lab}, {Hops: 1, Streams: []Stream{{"us", "hang"}}}},
			Ops:     []Op{{T: 1, At: at, K: "remove"}}})
		out = append(out, Case{Family: "prefix",
			Targets: []TargetSpec{{Hops: 1, Streams: lab}, {Hops: 1, Dial: []bool{false, false}, Streams: []Stream{{"pu", "eof"}}}},
			Ops:     []Op{{T: 0, At: at, K: "reconnect"}}})
	}
	out = append(out, Case{Family: "prefix", Targets: []TargetSpec{{Hops: 1, Streams: lab}}})
	return out
}

func randSpec(r *vh.Rand) TargetSpec {
	sp := TargetSpec{Hops: 1 + r.Pick(6, 3, 1), Creds: r.Chance(1, 4), DupAddr: r.Chance(1, 4)}
	if r.Chance(1, 8) {
		sp.BadFirst = []string{"noaddr", "nilreq", "niltarget", "noname"}[r.Intn(4)]
	}
	if r.Chance(1, 4) {
		sp.TimeoutMs = tmo
	} else if r.Chance(1, 4) {
		sp.TimeoutMs = longTimeoutMs
	}
	n := 1 + r.Intn(6)
	for i := 0; i < n; i++ {
		if sp.Creds {
			sp.Cred = append(sp.Cred, !r.Chance(1, 6))
		}
		for h := 0; h < sp.Hops; h++ {
			sp.Dial = append(sp.Dial, !r.Chance(1, 4))
		}
		sp.Open = append(sp.Open, !r.Chance(1, 7))
		sp.Send = append(sp.Send, !r.Chance(1, 8))
		var b strings.Builder
		k := r.Pick(3, 3, 2, 2, 1, 1)
		for j := 0; j < k; j++ {
			b.WriteByte("uuuopqsssenwuusL"[r.Intn(16)])
		}
		end := []string{"err", "eof", "hang", "canceled", "deadline"}[r.Pick(4, 4, 2, 1, 1)]
		sp.Streams = append(sp.Streams, Stream{b.String(), end})
	}
	return sp
}

func randCase(r *vh.Rand) Case {
	c := Case{Family: "random"}
	if r.Chance(1, 8) {
		c.MgrTimeoutMs = tmo
	}
	if r.Chance(1, 3) {
		c.CbDelayUs = 100 + 100*r.Intn(4)
	}
	c.RealCM = r.Chance(1, 6)
	if r.Chance(1, 5) {
		c.DialTimeoutMs = 60 + 20*r.Intn(4)
	}
	nt := 1 + r.Pick(5, 3, 2)
	for i := 0; i < nt; i++ {
		c.Targets = append(c.Targets, randSpec(r.Fork()))
	}
	for i := 0; i < nt; i++ {
		no := r.Pick(2, 3, 3, 2, 1)
		at := 0
		for j := 0; j < no; j++ {
			at += r.Intn(14)
			k := []string{"reconnect", "readd", "remove", "add", "addbad"}[r.Pick(5, 3, 2, 2, 2)]
			o := Op{T: i, At: at, K: k}
			if k == "addbad" {
				o.X = []string{"noaddr", "nilreq", "niltarget", "noname"}[r.Intn(4)]
			}
			c.Ops = append(c.Ops, o)
		}
		if c.DialTimeoutMs > 0 {
			// an address that is unreachable for a while: those dials block
			// until the manager's dial timeout
			n := len(c.Targets[i].Dial)
			for j := 0; j < n && j < 6; j++ {
				c.Targets[i].DialBlock = append(c.Targets[i].DialBlock, r.Chance(1, 5))
			}
		}
		if c.RealCM {
			switch r.Pick(3, 2, 2) {
			case 1:
				c.Targets[i].Dialers = []string{"alt"}
			case 2:
				// unknown dialer first: the target can only get on once it is added again
				c.Targets[i].Dialers = []string{"bogus", []string{"", "alt"}[r.Intn(2)]}
				c.Ops = append(c.Ops, Op{T: i, At: at + 2 + r.Intn(8), K: "readd"})
			}
		}
		if r.Chance(1, 8) {
			cbk := []string{"Connect", "Update", "Sync", "Reset", "CE", "ME"}[r.Intn(6)]
			c.Targets[i].Reenter = &Gate{Cb: cbk, N: 1 + r.Intn(3)}
		}
		if r.Chance(1, 5) {
			cbk := []string{"Connect", "Update", "Sync", "Reset", "CE", "ME"}[r.Intn(6)]
			c.Targets[i].Gate = &Gate{Cb: cbk, N: 1 + r.Intn(3)}
			x := []string{"add", "remove", "reconnect"}[r.Intn(3)]
			c.Ops = append(c.Ops, Op{T: i, K: "overlap", X: x})
		}
	}
	return c
}

// ---------------------------------------------------------------------------
// emission

type emitter struct {
	dir    string
	cf     *vh.CaseFile
	shard  int
	meta   *vh.Meta
	limit  int
	window time.Duration
	stalls int
}

func nontrivial(c Case) bool {
	for _, tr := range c.Obs {
		r, ce := false, false
		for _, e := range tr {
			if e == "Reset" {
				r = true
			}
			if e == "CE" {
				ce = true
			}
		}
		if r && ce {
			return true
		}
	}
	return false
}

func canonical(c Case) string {
	c.Obs = nil
	c.Gaps = nil
	c.MaxWaitUs = nil
	c.Family = ""
	c.Reps = 0
	b, _ := json.Marshal(c)
	return string(b)
}

func (e *emitter) record(c Case) {
	e.cf.Add(caseTerm(c), c)
	for _, tr := range c.Obs {
		sessions := 0
		for _, ev := range tr {
			k := ev
			if strings.HasPrefix(ev, "recv:u") {
				k = "recv:u"
			} else if strings.HasPrefix(ev, "Update") {
				k = "Update"
			}
			e.meta.Hist("ev:" + k)
			if ev == "ME" {
				sessions++
			}
			if ev == "stall" || ev == "hang" {
				e.stalls++
			}
		}
		e.meta.Hist(fmt.Sprintf("attempts:%02d", (sessions/4)*4))
	}
	e.meta.Hist(fmt.Sprintf("targets:%d", len(c.Targets)))
	for _, o := range c.Ops {
		e.meta.Hist("op:" + o.K)
	}
	s := map[string]interface{}{"family": c.Family, "targets": c.Targets, "ops": c.Ops, "trace0": strings.Join(c.Obs[0], " ")}
	e.meta.Count(c.Family, canonical(c), nontrivial(c), s)
	if e.cf.Len() >= e.limit {
		e.flush()
	}
}

func (e *emitter) flush() {
	if e.cf.Len() == 0 {
		return
	}
	if err := e.cf.Write(e.dir, e.shard, "Manager.ManagerModel Manager.ManagerCheck", "case", "check_all"); err != nil {
		vh.Die("write: %v", err)
	}
	e.shard++
	e.cf = vh.NewCaseFile()
}

// runAll runs the cases with bounded parallelism (each case has its own
// Manager; names are unique) and records them in input order.
func (e *emitter) runAll(cs []Case, par int) {
	out := make([][][]string, len(cs))
	gout := make([][][]int64, len(cs))
	wout := make([][]int64, len(cs))
	sem := make(chan struct{}, par)
	var wg sync.WaitGroup
	var stalled int64
	for i := range cs {
		if atomic.LoadInt64(&stalled) >= 12 {
			// the implementation is stuck on many cases already: enough evidence,
			// do not spend a watchdog period on every remaining case
			cs = cs[:i]
			out = out[:i]
			gout = gout[:i]
			wout = wout[:i]
			break
		}
		sem <- struct{}{}
		wg.Add(1)
		go func(i int) {
			defer wg.Done()
			defer func() { <-sem }()
			defer func() {
				if r := recover(); r != nil {
					out[i] = [][]string{{"hang"}}
				}
			}()
			reps := cs[i].Reps
			if reps < 1 {
				reps = 1
			}
			for k := 0; k < reps; k++ {
				o, g, w := runCase(cs[i], e.window)
				out[i] = append(out[i], o...)
				gout[i] = append(gout[i], g...)
				wout[i] = append(wout[i], w...)
			}
			for _, tr := range out[i] {
				for _, ev := range tr {
					if ev == "stall" || ev == "hang" {
						atomic.AddInt64(&stalled, 1)
					}
				}
			}
		}(i)
	}
	wg.Wait()
	for i := range cs {
		c := cs[i]
		c.Obs = out[i]
		c.Gaps = gout[i]
		c.MaxWaitUs = wout[i]
		for len(c.Obs) < len(c.Targets) || len(c.Obs)%len(c.Targets) != 0 {
			c.Obs = append(c.Obs, []string{"hang"})
		}
		e.record(c)
	}
}

func readCases(path string) ([]Case, error) {
	b, err := os.ReadFile(path)
	if err != nil {
		return nil, err
	}
	var cs []Case
	if err := json.Unmarshal(b, &cs); err != nil {
		var one Case
		if err2 := json.Unmarshal(b, &one); err2 != nil {
			return nil, err
		}
		cs = []Case{one}
	}
	for i := range cs {
		normalize(&cs[i])
	}
	return cs, nil
}

func gorLen(tr []string) int {
	n := 0
	for _, e := range tr {
		switch e {
		case "addC", "add+", "add-", "rcC", "rcR+", "rcR-", "rmC", "rmR+", "rmR-", "hang", "stall",
			"addbad+", "addbad-", "gateC", "gateO", "xaddC", "xadd+", "xadd-", "xrmC", "xrmR+", "xrmR-", "xrcC", "xrcR+", "xrcR-":
		default:
			n++
		}
	}
	return n
}

func main() {
	o := vh.ParseFlags()
	flag.Set("logtostderr", "true")
	flag.Set("stderrthreshold", "FATAL")
	if devnull, err := os.OpenFile(os.DevNull, os.O_WRONLY, 0); err == nil {
		os.Stderr = devnull // glog of the package under test
	}
	manager.RetryBaseDelay = retryBase
	manager.RetryMaxDelay = retryMax
	manager.RetryRandomization = 0.5
	manager.VerifSetSubscribeClient(openStream)

	meta := vh.NewMeta("corpus cases; systematic family: single-target fault scripts (dial refusal, credentials / open / send failure, multi-hop, data then error / EOF, hang with and without receive timeout, slow live stream; seven single-target fault scripts in all, the seventh with a receive timer that is armed but cannot expire), each alone and with one Reconnect, one Remove and one Remove+Add placed at every position (quick: every second position of long logs) of the script's baseline log, a third of them with slow callbacks (a callback is logged when it returns); overlap family: two scripts x a held callback (each kind, first or second occurrence) x {Add, Remove, Reconnect} of the same name issued by a second goroutine while the first one's Remove is in progress (observed waiting inside Manager.Remove), a fifth of the random cases get such an action too; prefix family: updates whose prefix.target is the owner's name, another managed name, a removed name or an unknown name; realcm family: the Manager on the real connection.Manager with scripted dialers (unknown dialer name fixed on re-add, two targets sharing an address one of them with an unknown dialer, dial failures then success), a sixth of the random cases run on it too, an error that nothing during the call explains is reported as a stall; blocking family: dials and stream opens that only end with their context (dial blocks until Config.Timeout for k attempts then succeeds; Remove / Reconnect / Remove+Add issued during the pending call; a second target joining the pending dial; no dial timeout: only Reconnect / Remove end it), on the injected and on the real connection manager, a fifth of the random cases have a dial timeout and blocking dials; campaign family: duplicate and chained address lines, literal receive_timeout meta values (unparsable, zero, negative, far away next to a manager-wide timeout), peer-side context.Canceled / DeadlineExceeded as Recv errors, a slow live stream under a 40 ms timeout (the model is told 'no timeout' when no Recv took a quarter of it), messages delivered just after the receive timeout fired (timer racing with a message in flight), Adds refused for every reason the code has (no addresses, nil request, nil target, empty name) before the first valid Add, while managed and after Remove, followed by Add / Remove / Reconnect of the same and of another name, seven quick failures in a row (each backoff gap is judged against the smallest delay possible at its position); random family: 1-3 targets per manager (shared addresses), 1-6 scripted attempts each, 0-4 control actions (Reconnect, Remove, Add, Remove+Add) at random log positions, receive timeout none / 12 ms / far away, callbacks instantaneous or 100-400 us. distinct = distinct (scripts, actions); non-trivial = some target's log has a Reset and a ConnectError")
	meta.Samples = []interface{}{} // never null in meta.json
	window := 30 * time.Millisecond
	par := 8
	if o.Thorough() {
		window = 300 * time.Millisecond
		par = 24
	}
	e := &emitter{dir: o.Out, cf: vh.NewCaseFile(), meta: meta, limit: 120, window: window}

	if o.Replay != "" {
		cs, err := readCases(o.Replay)
		if err != nil {
			vh.Die("replay: %v", err)
		}
		for i := range cs {
			cs[i].Family = "replay"
		}
		// a replayed case is timing dependent: run it several times
		for i := range cs {
			if cs[i].Reps < 1 {
				cs[i].Reps = 8
			}
		}
		e.runAll(cs, par)
		e.flush()
		meta.Write(o.Out)
		return
	}

	// corpus first
	if dir := os.Getenv("VERIF_CORPUS"); dir != "" {
		ents, _ := os.ReadDir(dir)
		var all []Case
		for _, en := range ents {
			if !strings.HasSuffix(en.Name(), ".json") {
				continue
			}
			cs, err := readCases(dir + "/" + en.Name())
			if err != nil {
				vh.Die("corpus file %s unreadable: %v", en.Name(), err)
			}
			for _, c := range cs {
				c.Family = "corpus"
				if c.Reps < 1 {
					c.Reps = 6
				}
				all = append(all, c)
			}
		}
		e.runAll(all, par)
	}

	// systematic
	var sys []Case
	for _, sp := range systematicScripts() {
		base := Case{Family: "systematic", Targets: []TargetSpec{sp}}
		obs, _, _ := runCase(base, 0)
		l := gorLen(obs[0])
		if l > 60 {
			l = 60
		}
		sys = append(sys, base)
		step := 1
		if !o.Thorough() && l > 30 {
			step = 2
		}
		for _, k := range []string{"reconnect", "remove", "readd"} {
			for at := 0; at <= l; at += step {
				c := base
				c.Ops = []Op{{T: 0, At: at, K: k}}
				if (at/step)%3 == 1 {
					c.CbDelayUs = 200
				}
				sys = append(sys, c)
			}
		}
	}
	e.runAll(sys, par)
	meta.Extra["systematic_cases"] = len(sys)

	// overlapping calls for one name
	ov := overlapCases()
	if o.Thorough() {
		ov = append(ov, overlapCases()...)
	}
	e.runAll(ov, par)
	meta.Extra["overlap_cases"] = len(ov)

	// updates labelled with other names; the real connection manager
	px := prefixCases()
	rc := realCMCases()
	if o.Thorough() {
		px = append(px, prefixCases()...)
		rc = append(rc, realCMCases()...)
		rc = append(rc, realCMCases()...)
	}
	cc := campaignCases()
	e.runAll(cc, par)
	meta.Extra["campaign_cases"] = len(cc)
	bl := blockingCases()
	if o.Thorough() {
		bl = append(bl, blockingCases()...)
	}
	e.runAll(bl, par)
	meta.Extra["blocking_cases"] = len(bl)
	e.runAll(px, par)
	e.runAll(rc, par)
	meta.Extra["prefix_cases"] = len(px)
	meta.Extra["realcm_cases"] = len(rc)

	// random
	r := vh.NewRand(o.Seed)
	nrand := 350
	if o.Thorough() {
		nrand = 6000
	}
	var rnd []Case
	for i := 0; i < nrand; i++ {
		c := randCase(r.Fork())
		normalize(&c)
		rnd = append(rnd, c)
	}
	e.runAll(rnd, par)
	e.flush()
	meta.Extra["stray_environment_calls"] = atomic.LoadInt64(&strays)
	meta.Extra["watchdog_events"] = e.stalls
	meta.Extra["listening_window_ms"] = int(window / time.Millisecond)
	if err := meta.Write(o.Out); err != nil {
		vh.Die("meta: %v", err)
	}
}

// Package vh holds what every verification harness shares: the single seeded
// PRNG all random choices derive from, the writer for cases_*.v files
// (Gallina terms evaluated by Coq), and the JSON side files the orchestrator
// reads (case descriptions for replay, coverage metadata).
package vh

import (
	"crypto/sha256"
	"encoding/hex"
	"encoding/json"
	"flag"
	"fmt"
	"os"
	"path/filepath"
	"sort"
	"strings"
)

// Rand is splitmix64; one state per run, every random choice derives from it.
type Rand struct{ s uint64 }

// NewRand scrambles the seed first: with the plain state seed*GOLDEN+c, seed s+1
// would be seed s advanced by one draw (consecutive seeds gave shifted copies).
func NewRand(seed uint64) *Rand {
	r := &Rand{s: seed ^ 0x5851F42D4C957F2D}
	r.s = r.U64() ^ (seed * 0xD6E8FEB86659FD93)
	return r
}

func (r *Rand) U64() uint64 {
	r.s += 0x9E3779B97F4A7C15
	z := r.s
	z = (z ^ (z >> 30)) * 0xBF58476D1CE4E5B9
	z = (z ^ (z >> 27)) * 0x94D049BB133111EB
	return z ^ (z >> 31)
}

// Intn returns a value in [0,n).
func (r *Rand) Intn(n int) int {
	if n <= 0 {
		return 0
	}
	return int(r.U64() % uint64(n))
}

// Chance is true with probability num/den.
func (r *Rand) Chance(num, den int) bool { return r.Intn(den) < num }

// Pick returns a weighted index.
func (r *Rand) Pick(weights ...int) int {
	t := 0
	for _, w := range weights {
		t += w
	}
	x := r.Intn(t)
	for i, w := range weights {
		if x < w {
			return i
		}
		x -= w
	}
	return len(weights) - 1
}

// Fork derives an independent generator (so that sub-generators do not
// perturb each other when one of them changes the number of draws).
func (r *Rand) Fork() *Rand { return &Rand{s: r.U64()} }

// Opts are the command-line options common to all harness binaries.
type Opts struct {
	Seed   uint64
	Tier   string
	Out    string
	Replay string
}

// ParseFlags reads -seed -tier -out -replay.
func ParseFlags() Opts {
	var o Opts
	flag.Uint64Var(&o.Seed, "seed", 1, "PRNG seed")
	flag.StringVar(&o.Tier, "tier", "quick", "quick|thorough")
	flag.StringVar(&o.Out, "out", "", "output directory")
	flag.StringVar(&o.Replay, "replay", "", "replay file (JSON list of cases) instead of generating")
	flag.Parse()
	if o.Out == "" {
		fmt.Fprintln(os.Stderr, "-out required")
		os.Exit(2)
	}
	if err := os.MkdirAll(o.Out, 0o755); err != nil {
		fmt.Fprintln(os.Stderr, err)
		os.Exit(2)
	}
	return o
}

// Thorough reports whether the thorough tier was selected.
func (o Opts) Thorough() bool { return o.Tier == "thorough" }

// ---------------------------------------------------------------------------
// Gallina printing

// Names is a per-file table of string constants (elaboration of repeated
// inline string literals dominates coqc time otherwise).
type Names struct {
	idx   map[string]int
	order []string
}

// NewNames makes an empty table.
func NewNames() *Names { return &Names{idx: map[string]int{}} }

// Ref returns the Gallina identifier standing for s.
func (n *Names) Ref(s string) string {
	i, ok := n.idx[s]
	if !ok {
		i = len(n.order)
		n.idx[s] = i
		n.order = append(n.order, s)
	}
	return fmt.Sprintf("s%d", i)
}

// CoqString renders a Go string as a Coq string literal (bytes).
func CoqString(s string) string {
	var b strings.Builder
	b.WriteByte('"')
	for i := 0; i < len(s); i++ {
		c := s[i]
		if c == '"' {
			b.WriteString(`""`)
		} else {
			b.WriteByte(c)
		}
	}
	b.WriteByte('"')
	return b.String()
}

// Decls renders the table.
func (n *Names) Decls() string {
	var b strings.Builder
	for i, s := range n.order {
		fmt.Fprintf(&b, "Definition s%d : string := %s%%string.\n", i, CoqString(s))
	}
	return b.String()
}

// Path renders []string as a Gallina list of names.
func (n *Names) Path(p []string) string {
	parts := make([]string, len(p))
	for i, s := range p {
		parts[i] = n.Ref(s)
	}
	return "[" + strings.Join(parts, "; ") + "]"
}

// Z renders an integer literal.
func Z(v int64) string { return fmt.Sprintf("(%d)%%Z", v) }

// Nat renders a small natural.
func Nat(v int) string { return fmt.Sprintf("%d%%nat", v) }

// Bool renders a bool.
func Bool(b bool) string {
	if b {
		return "true"
	}
	return "false"
}

// List joins rendered elements.
func List(elems []string) string { return "[" + strings.Join(elems, "; ") + "]" }

// ---------------------------------------------------------------------------
// Case files

// CaseFile accumulates cases for one cases_k.v together with their JSON
// descriptions.
type CaseFile struct {
	Names *Names
	terms []string
	descs []json.RawMessage
}

// NewCaseFile makes an empty shard.
func NewCaseFile() *CaseFile { return &CaseFile{Names: NewNames()} }

// Add appends one case: its Gallina term and its JSON description.
func (c *CaseFile) Add(term string, desc interface{}) {
	c.terms = append(c.terms, term)
	b, err := json.Marshal(desc)
	if err != nil {
		panic(err)
	}
	c.descs = append(c.descs, b)
}

// Len is the number of cases so far.
func (c *CaseFile) Len() int { return len(c.terms) }

// Write emits <dir>/cases_<k>.v and <dir>/cases_<k>.json.  require is the
// Coq library to import, caseType the Gallina type of one case, and checkFn a
// function [list caseType -> list (nat * nat * N)].
func (c *CaseFile) Write(dir string, k int, require, caseType, checkFn string) error {
	var b strings.Builder
	fmt.Fprintf(&b, "From Gnmi Require Import Base.Prelude %s.\nOpen Scope Z_scope.\n", require)
	b.WriteString(c.Names.Decls())
	for i, t := range c.terms {
		fmt.Fprintf(&b, "Definition c%d : %s := %s.\n", i, caseType, t)
	}
	refs := make([]string, len(c.terms))
	for i := range c.terms {
		refs[i] = fmt.Sprintf("c%d", i)
	}
	fmt.Fprintf(&b, "Definition cases : list (%s) := %s.\n", caseType, List(refs))
	fmt.Fprintf(&b, "Definition R := Eval vm_compute in %s cases.\nPrint R.\n", checkFn)
	if err := os.WriteFile(filepath.Join(dir, fmt.Sprintf("cases_%d.v", k)), []byte(b.String()), 0o644); err != nil {
		return err
	}
	js, err := json.Marshal(c.descs)
	if err != nil {
		return err
	}
	return os.WriteFile(filepath.Join(dir, fmt.Sprintf("cases_%d.json", k)), js, 0o644)
}

// ---------------------------------------------------------------------------
// Coverage metadata

// Meta is what the harness tells the orchestrator about the run; it is copied
// into the evidence file.
type Meta struct {
	Evaluations        int                    `json:"evaluations"`
	DistinctNontrivial int                    `json:"distinct_nontrivial"`
	Rule               string                 `json:"rule"`
	Samples            []interface{}          `json:"samples"`
	Exhaustive         bool                   `json:"exhaustive"`
	Histogram          map[string]int         `json:"histogram"`
	Families           map[string]int         `json:"families"`
	Extra              map[string]interface{} `json:"extra,omitempty"`
	seen               map[string]bool
}

// NewMeta makes an empty record.
func NewMeta(rule string) *Meta {
	return &Meta{Rule: rule, Histogram: map[string]int{}, Families: map[string]int{}, seen: map[string]bool{}, Extra: map[string]interface{}{}}
}

// Count records one evaluated case; canonical is its canonicalised text (for
// distinctness) and nontrivial the per-property rule's verdict.
func (m *Meta) Count(family, canonical string, nontrivial bool, sample interface{}) {
	m.Evaluations++
	m.Families[family]++
	h := sha256.Sum256([]byte(canonical))
	k := hex.EncodeToString(h[:8])
	if !m.seen[k] {
		m.seen[k] = true
		if nontrivial {
			m.DistinctNontrivial++
			if len(m.Samples) < 3 {
				m.Samples = append(m.Samples, sample)
			}
		}
	}
}

// Hist bumps a histogram bucket.
func (m *Meta) Hist(k string) { m.Histogram[k]++ }

// Write emits <dir>/meta.json.
func (m *Meta) Write(dir string) error {
	b, err := json.MarshalIndent(m, "", " ")
	if err != nil {
		return err
	}
	return os.WriteFile(filepath.Join(dir, "meta.json"), b, 0o644)
}

// SortedKeys returns the keys of a string-keyed map, sorted.
func SortedKeys(m map[string]int) []string {
	ks := make([]string, 0, len(m))
	for k := range m {
		ks = append(ks, k)
	}
	sort.Strings(ks)
	return ks
}

// Die prints and exits 2 (harness failure, never a verdict).
func Die(format string, a ...interface{}) {
	fmt.Fprintf(os.Stderr, format+"\n", a...)
	os.Exit(2)
}

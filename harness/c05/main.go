// Harness for C05 (ONCE and POLL return exactly the matching snapshot, then
// sync): scripts of cache writes, one Subscribe call and sequential poll
// triggers against a real cache.Cache + subscribe.Server; see engine.go.
package main

import (
	"fmt"
	"os"
	"sort"
	"strings"

	"github.com/openconfig/gnmi/zz_verif/vh"
)

func (g *gen) request(targets []string, mode int) *Req {
	r := g.r
	rq := &Req{HasSub: true, Mode: mode, UpdatesOnly: r.Chance(1, 14)}
	if r.Chance(1, 80) {
		rq.HasSub = false
	}
	pf := &GPath{}
	switch r.Pick(62, 28, 4, 3, 3) {
	case 0:
		pf.Target = targets[r.Intn(len(targets))]
	case 1:
		pf.Target = "*"
	case 2:
		pf.Target = "tx"
	case 3:
		pf.Target = ""
	case 4:
		pf = nil
	}
	if pf != nil {
		if r.Chance(1, 2) {
			pf.Origin = g.requestOrigin()
		}
		if r.Chance(1, 5) {
			pf.Elems = g.queryPath(1)
		}
	}
	rq.Prefix = pf
	k := 1 + r.Pick(5, 3, 2)
	if r.Chance(1, 50) {
		k = 0
	} else if r.Chance(1, 30) {
		k = 4 + r.Intn(4)
	}
	for i := 0; i < k; i++ {
		if r.Chance(1, 25) {
			rq.Subs = append(rq.Subs, nil)
			continue
		}
		p := &GPath{Elems: g.queryPath(3)}
		if pf != nil && pf.Origin != "" {
			if r.Chance(1, 15) {
				p.Origin = "oc" // origin in both: CompletePath fails
			}
		} else {
			p.Origin = g.requestOrigin()
		}
		rq.Subs = append(rq.Subs, p)
	}
	return rq
}

func (g *gen) randomCase(mode int, thoroughPolls bool) Case {
	r := g.r
	nt := 1 + r.Pick(3, 4, 3)
	targets := []string{"t1", "t2", "t3"}[:nt]
	pathOrigins := r.Chance(1, 4)
	c := Case{Targets: targets}
	ninit := 2 + r.Intn(9)
	for i := 0; i < ninit; i++ {
		c.Ops = append(c.Ops, g.cacheStep(targets, pathOrigins, false))
	}
	c.Req = g.request(targets, mode)
	if r.Chance(1, 150) {
		c.Req = nil
	}
	writers := (mode == 1 || mode == 2) && r.Chance(1, 6)
	if writers {
		// the walk is overlapped by concurrent writers
		c.Ops = append(c.Ops, Step{K: "sub", Burst: 1})
		k := 2 + r.Intn(5)
		for i := 0; i < k; i++ {
			b := 1
			if i == k-1 {
				b = 2
			}
			c.Ops = append(c.Ops, g.burstWrite(targets, b))
		}
	} else {
		c.Ops = append(c.Ops, Step{K: "sub"})
	}
	if mode == 2 {
		np := r.Pick(2, 4, 3, 2)
		if thoroughPolls {
			np += r.Intn(3)
		}
		for p := 0; p < np; p++ {
			ne := r.Pick(3, 4, 3)
			for i := 0; i < ne; i++ {
				c.Ops = append(c.Ops, g.cacheStep(targets, pathOrigins, true))
			}
			c.Ops = append(c.Ops, Step{K: "poll"})
		}
	} else if mode == 0 {
		ne := r.Intn(4)
		for i := 0; i < ne; i++ {
			c.Ops = append(c.Ops, g.cacheStep(targets, pathOrigins, true))
		}
	}
	return c
}

// gridCases: one fixed cache, every query path over {a,b,*} up to length 3,
// under every placement of the origin, against one target and against "*".
func gridCases(emit func(Case)) int {
	var init []Step
	ts := int64(0)
	put := func(t, o string, pe []Elem, path []Elem, v int64) {
		ts++
		init = append(init, Step{K: "update", N: &Noti{TS: ts, Prefix: GPath{Target: t, Origin: o, Elems: pe},
			Upds: []Upd{{Path: GPath{Elems: path}, Val: v}}}})
	}
	put("t1", "oc", nil, []Elem{el("a"), el("b")}, 1)
	put("t1", "oc", nil, []Elem{el("a"), el("a")}, 2)
	put("t1", "", nil, []Elem{el("a"), el("b")}, 3)
	put("t1", "", nil, []Elem{el("b"), el("a"), el("b")}, 4)
	put("t1", "foo", []Elem{el("a")}, []Elem{el("b"), el("a")}, 5)
	put("t1", "", nil, []Elem{el("oc"), el("b")}, 6)
	put("t2", "oc", nil, []Elem{el("a"), el("b")}, 7)
	put("t2", "", nil, []Elem{el("b")}, 8)
	put("t2", "", []Elem{el("a")}, []Elem{el("b", "k", "a")}, 9)
	ts++
	init = append(init, Step{K: "update", N: &Noti{TS: ts, Atomic: true, Prefix: GPath{Target: "t2", Origin: "oc", Elems: []Elem{el("b"), el("a")}},
		Upds: []Upd{{Path: GPath{Elems: []Elem{el("x")}}, Val: 1}, {Path: GPath{Elems: []Elem{el("y")}}, Val: 2}}}})
	names := []string{"a", "b", "*"}
	var paths [][]Elem
	var rec func(cur []Elem, d int)
	rec = func(cur []Elem, d int) {
		paths = append(paths, append([]Elem{}, cur...))
		if d == 3 {
			return
		}
		for _, n := range names {
			rec(append(cur, el(n)), d+1)
		}
	}
	rec(nil, 0)
	n := 0
	for _, p := range paths {
		for place := 0; place < 5; place++ {
			for _, tgt := range []string{"t1", "*"} {
				pf := &GPath{Target: tgt}
				sp := &GPath{Elems: p}
				switch place {
				case 1:
					pf.Origin = "oc"
				case 2:
					sp.Origin = "oc"
				case 3:
					pf.Origin = "foo"
				case 4:
					// first element of the path moved into the prefix
					if len(p) == 0 {
						continue
					}
					pf.Elems = p[:1]
					sp.Elems = p[1:]
				}
				c := Case{Targets: []string{"t1", "t2"}, Req: &Req{HasSub: true, Prefix: pf, Subs: []*GPath{sp}, Mode: 1}}
				c.Ops = append(append([]Step{}, init...), Step{K: "sub"})
				emit(c)
				n++
			}
		}
	}
	return n
}

// idleCase: a POLL (or STREAM) script on a server with a small send timeout in
// which the client idles for about three times that timeout after a received
// sync before its next trigger / a later update / the end of the script.
func (g *gen) idleCase() Case {
	const timeoutMS, gapMS = 100, 320
	r := g.r
	mode := 2
	if r.Chance(1, 4) {
		mode = 0
	}
	var c Case
	for tries := 0; ; tries++ {
		c = g.randomCase(mode, false)
		ok := c.Req != nil && c.Req.HasSub && c.Req.Prefix != nil && (c.Req.Prefix.Target == "*" || c.Req.Prefix.Target == "t1")
		for _, o := range c.Ops {
			if o.Burst != 0 {
				ok = false
			}
		}
		if ok || tries > 50 {
			break
		}
	}
	c.TimeoutMS = timeoutMS
	after := false
	for i := range c.Ops {
		if c.Ops[i].K == "sub" {
			after = true
			continue
		}
		if after {
			c.Ops = c.Ops[:i]
			break
		}
	}
	// after the Subscribe step: idle, then a trigger (POLL) or an update (STREAM);
	// sometimes a second round without a gap in between; then idle before the end
	next := func(idle int) {
		if mode == 2 {
			if r.Chance(1, 2) {
				c.Ops = append(c.Ops, g.cacheStep(c.Targets, false, false))
			}
			c.Ops = append(c.Ops, Step{K: "poll", IdleMS: idle})
		} else {
			st := g.cacheStep(c.Targets, false, false)
			st.IdleMS = idle
			c.Ops = append(c.Ops, st)
		}
	}
	if r.Chance(1, 3) {
		next(0)
	}
	next(gapMS)
	if r.Chance(1, 2) {
		next(0)
	}
	if r.Chance(1, 2) {
		c.IdleEndMS = gapMS
	}
	return c
}

// churnCase: ONCE / POLL walks (mostly on "*") overlapped by target-level
// writers: a spare target is removed and added again in a loop (Cache.Remove /
// Cache.Add take the cache's write lock) for as long as the walk runs, next to
// leaf writers.  Judged by the weak clause; a walk that never finishes is a
// Hang observation.
func (g *gen) churnCase() Case {
	r := g.r
	targets := []string{"t1", "t2", "sp"}
	c := Case{Targets: targets}
	ninit := 3 + r.Intn(6)
	for i := 0; i < ninit; i++ {
		c.Ops = append(c.Ops, g.cacheStep(targets, false, false))
	}
	mode := 1 + r.Intn(2)
	c.Req = g.request(targets[:2], mode)
	c.Req.HasSub = true
	if c.Req.Prefix == nil || r.Chance(4, 5) {
		pf := GPath{Target: "*"}
		if c.Req.Prefix != nil {
			pf.Origin, pf.Elems = c.Req.Prefix.Origin, c.Req.Prefix.Elems
		}
		c.Req.Prefix = &pf
	}
	round := func(first string) {
		c.Ops = append(c.Ops, Step{K: first, Burst: 1})
		k := r.Intn(3)
		for i := 0; i < k; i++ {
			c.Ops = append(c.Ops, g.burstWrite(targets[:2], 1))
		}
		c.Ops = append(c.Ops, Step{K: "churn", Target: "sp", Burst: 2})
	}
	round("sub")
	if mode == 2 {
		np := r.Intn(3)
		for p := 0; p < np; p++ {
			if r.Chance(1, 2) {
				c.Ops = append(c.Ops, g.cacheStep(targets, false, false))
			}
			if r.Chance(2, 3) {
				round("poll")
			} else {
				c.Ops = append(c.Ops, Step{K: "poll"})
			}
		}
	}
	return c
}

// siblingCases: two subscription paths whose index strings are related as
// strings but not as paths (a/b then a/bb, b[k=1] then b[k=10], both orders),
// with leaves that only the longer-named one matches.
func siblingCases(emit func(Case)) int {
	var init []Step
	ts := int64(0)
	put := func(p []Elem, v int64) {
		ts++
		init = append(init, Step{K: "update", N: &Noti{TS: ts, Prefix: GPath{Target: "t1"}, Upds: []Upd{{Path: GPath{Elems: p}, Val: v}}}})
	}
	put([]Elem{el("a"), el("b")}, 1)
	put([]Elem{el("a"), el("bb")}, 2)
	put([]Elem{el("b", "k", "1"), el("a")}, 3)
	put([]Elem{el("b", "k", "10"), el("a")}, 4)
	put([]Elem{el("ab"), el("a")}, 5)
	pairs := [][2][]Elem{
		{{el("a"), el("b")}, {el("a"), el("bb")}},
		{{el("b", "k", "1")}, {el("b", "k", "10")}},
		{{el("a")}, {el("ab")}},
		{{el("b", "k", "1"), el("a")}, {el("b", "k", "10"), el("*")}},
	}
	n := 0
	for _, pr := range pairs {
		for order := 0; order < 2; order++ {
			for _, tgt := range []string{"t1", "*"} {
				for _, mode := range []int{1, 2} {
					a, b := pr[0], pr[1]
					if order == 1 {
						a, b = b, a
					}
					c := Case{Targets: []string{"t1", "t2"}, Req: &Req{HasSub: true, Prefix: &GPath{Target: tgt}, Mode: mode,
						Subs: []*GPath{{Elems: a}, {Elems: b}}}}
					c.Ops = append(append([]Step{}, init...), Step{K: "sub"})
					if mode == 2 {
						c.Ops = append(c.Ops, Step{K: "poll"})
					}
					emit(c)
					n++
				}
			}
		}
	}
	return n
}

// deepCases: index paths longer than path.ToStrings' capacity constant (20): two
// leaves that differ only in the 24th string, subscriptions naming one of them,
// a glob in the middle, the common prefix.
func deepCases(emit func(Case)) int {
	var deep []Elem
	for i := 0; i < 11; i++ {
		deep = append(deep, el("n", "k", fmt.Sprint(i)))
	}
	leaf := func(last string) []Elem { return append(append([]Elem{}, deep...), el("z"), el(last)) }
	var init []Step
	for i, last := range []string{"x", "y"} {
		init = append(init, Step{K: "update", N: &Noti{TS: int64(i + 1), Prefix: GPath{Target: "t1"},
			Upds: []Upd{{Path: GPath{Elems: leaf(last)}, Val: int64(i)}}}})
	}
	glob := leaf("x")
	glob[5] = el("n", "k", "*")
	subs := [][]Elem{leaf("x"), leaf("y"), deep, glob, append(append([]Elem{}, deep...), el("z"), el("*"))}
	n := 0
	for _, sp := range subs {
		for _, mode := range []int{1, 2} {
			for split := 0; split < 2; split++ {
				pf := &GPath{Target: "t1"}
				p := &GPath{Elems: sp}
				if split == 1 {
					pf.Elems, p.Elems = sp[:3], sp[3:]
				}
				c := Case{Targets: []string{"t1"}, Req: &Req{HasSub: true, Prefix: pf, Mode: mode, Subs: []*GPath{p}}}
				c.Ops = append(append([]Step{}, init...), Step{K: "sub"})
				if mode == 2 {
					c.Ops = append(c.Ops, Step{K: "poll"})
				}
				emit(c)
				n++
			}
		}
	}
	return n
}

// heldCase: a ONCE / POLL walk whose sender is parked at its first Send (the
// stream's gate is closed) until writers have changed the cache: deletes of
// leaves the walk has already queued, new values for them, other writes.  The
// queued leaves are read when they are sent.  Judged by the weak clause.
func (g *gen) heldCase() Case {
	r := g.r
	targets := []string{"t1", "t2"}
	c := Case{Targets: targets}
	ninit := 4 + r.Intn(6)
	for i := 0; i < ninit; i++ {
		c.Ops = append(c.Ops, g.cacheStep(targets, false, false))
	}
	init := append([]Step{}, c.Ops...)
	mode := 1 + r.Intn(2)
	c.Req = g.request(targets, mode)
	c.Req.HasSub = true
	if c.Req.Prefix == nil || c.Req.Prefix.Target == "" || c.Req.Prefix.Target == "tx" || r.Chance(1, 2) {
		c.Req.Prefix = &GPath{Target: []string{"*", "t1", "t2"}[r.Intn(3)]}
		if r.Chance(1, 2) {
			c.Req.Subs = []*GPath{{}}
		}
	}
	write := func(b int) Step {
		if r.Chance(1, 2) {
			// delete (part of) the subtree of a leaf written earlier
			for tries := 0; tries < 10; tries++ {
				o := init[r.Intn(len(init))]
				if o.K != "update" || len(o.N.Upds) == 0 || o.N.Prefix.Target == "tx" {
					continue
				}
				g.ts += 1 + int64(r.Intn(2))
				el := o.N.Upds[0].Path.Elems
				if o.N.Atomic {
					el = nil
				}
				n := &Noti{TS: g.ts, Prefix: o.N.Prefix, Dels: []GPath{{Elems: el[:r.Intn(len(el)+1)]}}}
				if len(n.Dels[0].Elems) == 0 && len(n.Prefix.Elems) == 0 && n.Prefix.Origin == "" {
					n.Dels[0].Elems = []Elem{el2("*")}
				}
				return Step{K: "update", N: n, Burst: b}
			}
		}
		st := g.burstWrite(targets, b)
		st.Gate = 0
		return st
	}
	round := func(first string) {
		c.Ops = append(c.Ops, Step{K: first, Burst: 1, Seq: true, Hold: true})
		k := 1 + r.Intn(4)
		for i := 0; i < k; i++ {
			b := 1
			if i == k-1 {
				b = 2
			}
			c.Ops = append(c.Ops, write(b))
		}
	}
	round("sub")
	if mode == 2 {
		for p := r.Intn(3); p > 0; p-- {
			if r.Chance(1, 2) {
				c.Ops = append(c.Ops, g.cacheStep(targets, false, false))
			}
			if r.Chance(2, 3) {
				round("poll")
			} else {
				c.Ops = append(c.Ops, Step{K: "poll"})
			}
		}
	}
	return c
}

func el2(n string) Elem { return Elem{Name: n} }

func familyOf(base string, c Case) string {
	for _, o := range c.Ops {
		if o.Burst != 0 {
			return base + "-writers"
		}
	}
	return base
}

func nontrivial(c *Case) bool {
	if c.R1.Status != "ok" {
		return false
	}
	for _, o := range c.R1.Obs {
		for _, r := range o.Group {
			if !r.Sync {
				return true
			}
		}
	}
	return false
}

func main() {
	o := vh.ParseFlags()
	quietLogs()
	meta := vh.NewMeta("corpus cases; grid: one fixed two-target cache (origins, keyed element, atomic container), every ONCE query path over {a,b,*} of length 0..3 x origin placement {none, prefix oc, path oc, prefix foo, first element in the prefix} x target {t1,*}; deep-paths: 20 ONCE/POLL requests on index paths of 24 strings (beyond ToStrings' capacity constant 20) differing only at the end; sibling-prefix: 32 ONCE/POLL requests with two paths related as strings but not as paths (a/b & a/bb, b[k=1] & b[k=10], a & ab; both orders); random: 1-3 targets, 2-10 initial notifications (single/multi update, atomic, delete, keyed elements, origins in prefix or path), one request (ONCE/POLL/few STREAM; 1-3 subscription paths of length 0..3 with globs at any position, origins in prefix/path incl. conflicts, missing path/prefix/target, unknown target, updates_only), POLL: 0-3 triggers with 0-2 cache edits (updates, deletes, target removal) before each; in 1/6 of the ONCE/POLL cases the walk is overlapped by 2-6 concurrent single-update/delete writes (one writer goroutine per target), judged by the weak clause; half of the ONCE/POLL cases are perturbed at a schedule point of the coalescing queue: producers yield ~40us at insert:checked (so that the sender can drain and park between Insert's checks and the locked insert) or the consumer yields ~150us at next:empty (so that the walker can insert the rest and close the queue before the sender selects); idle-timeout: 22 (thorough 160) POLL/STREAM scripts on a server with WithTimeout(100ms) in which the client idles 320 ms after a received sync before the next trigger / update / EOF; held-walk: 150 (thorough 2000) ONCE/POLL scripts whose sender is parked at its first Send (closed stream gate) while 1-4 writes land between the walk and the send (deletes of queued leaves, new values), initial walk and poll rounds; target-churn: 120 (thorough 1500) ONCE/POLL scripts, 80% on target *, whose walks (initial and poll rounds) are overlapped by a loop of Cache.Remove/Cache.Add of a spare target plus 0-2 leaf writes. in every generated family (not corpus): with small probability a target and/or the deprecated element list on subscription paths, ignored request fields (Subscription.mode/sample_interval/heartbeat/suppress_redundant, qos, allow_aggregation, use_models, encoding, extension) and another construction of the server (options permuted, nil options interleaved, WithStats/WithFlowControlTest/stats hooks/explicit default timeout added). distinct = distinct inputs; non-trivial = the RPC ended OK and at least one update was delivered")
	e := &emitter{dir: o.Out, cf: newCaseFile(), meta: meta, limit: 255, require: "Subscribe.C05Check", nontriv: nontrivial}

	if o.Replay == "" {
		e.noise = vh.NewRand(o.Seed ^ 0x5eed)
	}
	if o.Replay != "" {
		cs, err := readCases(o.Replay)
		if err != nil {
			die("replay: %v", err)
		}
		for _, c := range cs {
			e.add("replay", c)
		}
		e.flush()
		if meta.Samples == nil {
			meta.Samples = []interface{}{}
		}
		meta.Write(o.Out)
		return
	}
	if dir := os.Getenv("VERIF_CORPUS"); dir != "" {
		ents, _ := os.ReadDir(dir)
		var names []string
		for _, en := range ents {
			if strings.HasSuffix(en.Name(), ".json") {
				names = append(names, en.Name())
			}
		}
		sort.Strings(names)
		for _, nm := range names {
			cs, err := readCases(dir + "/" + nm)
			if err != nil {
				die("corpus file %s unreadable: %v", nm, err)
			}
			for _, c := range cs {
				e.add("corpus", c)
			}
		}
	}
	ng := gridCases(func(c Case) { e.add("grid", c) })
	meta.Extra["grid_cases"] = ng
	meta.Extra["deep_cases"] = deepCases(func(c Case) { e.add("deep-paths", c) })
	meta.Extra["sibling_cases"] = siblingCases(func(c Case) { e.add("sibling-prefix", c) })

	r := vh.NewRand(o.Seed)
	nrand := 2150
	if o.Thorough() {
		nrand = 40000
	}
	for i := 0; i < nrand; i++ {
		g := newGen(r.Fork())
		switch g.r.Pick(42, 52, 6) {
		case 0:
			c := g.randomCase(1, o.Thorough())
			c.Perturb = []int{0, 0, 1, 2, 2, 2}[g.r.Intn(6)]
			e.add(familyOf("random-once", c), c)
		case 1:
			c := g.randomCase(2, o.Thorough())
			c.Perturb = []int{0, 0, 1, 1, 2, 0}[g.r.Intn(6)]
			e.add(familyOf("random-poll", c), c)
		default:
			m := 0
			if g.r.Chance(1, 4) {
				m = 7 // unknown mode
			}
			e.add("random-other-mode", g.randomCase(m, o.Thorough()))
		}
	}
	nidle := 22
	if o.Thorough() {
		nidle = 160
	}
	for i := 0; i < nidle; i++ {
		e.add("idle-timeout", newGen(r.Fork()).idleCase())
	}
	meta.Extra["idle_timeout_cases"] = nidle
	nheld := 150
	if o.Thorough() {
		nheld = 2000
	}
	for i := 0; i < nheld; i++ {
		e.add("held-walk", newGen(r.Fork()).heldCase())
	}
	nchurn := 120
	if o.Thorough() {
		nchurn = 1500
	}
	for i := 0; i < nchurn; i++ {
		e.add("target-churn", newGen(r.Fork()).churnCase())
	}
	e.flush()
	if meta.Samples == nil {
		meta.Samples = []interface{}{}
	}
	if err := meta.Write(o.Out); err != nil {
		die("meta: %v", err)
	}
}

// Harness for C05 (ONCE and POLL return exactly the matching snapshot, then
// sync): scripts of cache writes, one Subscribe call and sequential poll
// triggers against a real cache.Cache + subscribe.Server; see engine.go.
package main

import (
	"fmt"
	"os"
	"sort"
	"strings"

	"github.com/openconfig/gnmi/zz_verif/vh"
)

type gen struct {
	r  *vh.Rand
	ts int64
}

func (g *gen) nextTS() int64 {
	if g.ts > 0 && g.r.Chance(1, 40) {
		return g.ts // same timestamp again: the stale / "different value at same timestamp" branches
	}
	g.ts += 1 + int64(g.r.Intn(3))
	return g.ts
}

var dataElems = []Elem{el("a"), el("b"), el("c"), el("b", "k", "1"), el("b", "k", "2"), el("c", "x", "1", "y", "2"), el("c", "y", "1", "x", "2")}
var queryElems = []Elem{el("a"), el("b"), el("c"), el("*"), el("b", "k", "1"), el("b", "k", "*"), el("c", "x", "1", "y", "2"), el("c", "x", "*", "y", "2"), el("*", "k", "2")}

func (g *gen) origin(wNone, wOc, wFoo int) string {
	return []string{"", "oc", "foo"}[g.r.Pick(wNone, wOc, wFoo)]
}

func (g *gen) dataPath(min, max int) []Elem {
	n := min + g.r.Intn(max-min+1)
	out := make([]Elem, n)
	for i := range out {
		out[i] = dataElems[g.r.Pick(6, 5, 4, 3, 2, 2, 1)]
	}
	return out
}

func (g *gen) queryPath(max int) []Elem {
	n := g.r.Intn(max + 1)
	out := make([]Elem, n)
	for i := range out {
		out[i] = queryElems[g.r.Pick(6, 5, 3, 6, 2, 1, 1, 1, 1)]
	}
	return out
}

func samePath(a, b []Elem) bool { return fmt.Sprint(a) == fmt.Sprint(b) }

// dataNoti makes one notification for target t: a single update, several
// updates (and deletes), an atomic container, or a delete.
func (g *gen) dataNoti(t string, pathOrigins bool) *Noti {
	r := g.r
	n := &Noti{TS: g.nextTS(), Prefix: GPath{Target: t, Origin: g.origin(6, 3, 1)}}
	if r.Chance(1, 3) {
		n.Prefix.Elems = g.dataPath(1, 1)
	}
	upd := func() Upd {
		u := Upd{Path: GPath{Elems: g.dataPath(1, 2)}, Val: int64(r.Intn(5))}
		if pathOrigins && n.Prefix.Origin == "" && r.Chance(1, 6) {
			u.Path.Origin = g.origin(0, 2, 1)
		}
		return u
	}
	switch r.Pick(55, 15, 12, 18) {
	case 0:
		n.Upds = []Upd{upd()}
	case 1:
		k := 2 + r.Intn(2)
		for len(n.Upds) < k {
			u := upd()
			dupl := false
			for _, o := range n.Upds {
				if samePath(o.Path.Elems, u.Path.Elems) {
					dupl = true
				}
			}
			if !dupl {
				n.Upds = append(n.Upds, u)
			}
		}
		if r.Chance(1, 3) {
			n.Dels = []GPath{{Elems: g.dataPath(1, 2)}}
		}
	case 2:
		n.Atomic = true
		if len(n.Prefix.Elems) == 0 {
			n.Prefix.Elems = g.dataPath(1, 2)
		}
		k := 1 + r.Intn(3)
		for i := 0; i < k; i++ {
			n.Upds = append(n.Upds, Upd{Path: GPath{Elems: g.dataPath(1, 2)}, Val: int64(r.Intn(5))})
		}
	case 3:
		d := GPath{Elems: g.dataPath(0, 2)}
		for i := range d.Elems {
			if r.Chance(1, 4) {
				d.Elems[i] = el("*")
			}
		}
		if len(d.Elems) == 0 && len(n.Prefix.Elems) == 0 && n.Prefix.Origin == "" {
			d.Elems = []Elem{el("*")}
		}
		n.Dels = []GPath{d}
	}
	return n
}

func (g *gen) cacheStep(targets []string, pathOrigins bool, allowRemove bool) Step {
	t := targets[g.r.Intn(len(targets))]
	if allowRemove && g.r.Chance(1, 25) {
		g.ts++
		return Step{K: "remove", Target: t, Now: g.ts}
	}
	if g.r.Chance(1, 60) {
		t = "tx" // unknown target: GnmiUpdate returns an error
	}
	return Step{K: "update", N: g.dataNoti(t, pathOrigins)}
}

func (g *gen) request(targets []string, mode int) *Req {
	r := g.r
	rq := &Req{HasSub: true, Mode: mode, UpdatesOnly: r.Chance(1, 14)}
	if r.Chance(1, 80) {
		rq.HasSub = false
	}
	pf := &GPath{}
	switch r.Pick(62, 28, 4, 3, 3) {
	case 0:
		pf.Target = targets[r.Intn(len(targets))]
	case 1:
		pf.Target = "*"
	case 2:
		pf.Target = "tx"
	case 3:
		pf.Target = ""
	case 4:
		pf = nil
	}
	if pf != nil {
		pf.Origin = g.origin(6, 3, 1)
		if r.Chance(1, 4) {
			pf.Elems = g.queryPath(1)
		}
	}
	rq.Prefix = pf
	k := 1 + r.Pick(5, 3, 2)
	if r.Chance(1, 50) {
		k = 0
	}
	for i := 0; i < k; i++ {
		if r.Chance(1, 25) {
			rq.Subs = append(rq.Subs, nil)
			continue
		}
		p := &GPath{Elems: g.queryPath(3)}
		if pf != nil && pf.Origin != "" {
			if r.Chance(1, 15) {
				p.Origin = "oc" // origin in both: CompletePath fails
			}
		} else {
			p.Origin = g.origin(5, 3, 2)
		}
		rq.Subs = append(rq.Subs, p)
	}
	return rq
}

func (g *gen) randomCase(mode int, thoroughPolls bool) Case {
	r := g.r
	nt := 1 + r.Pick(3, 4, 3)
	targets := []string{"t1", "t2", "t3"}[:nt]
	pathOrigins := r.Chance(1, 4)
	c := Case{Targets: targets}
	ninit := 2 + r.Intn(9)
	for i := 0; i < ninit; i++ {
		c.Ops = append(c.Ops, g.cacheStep(targets, pathOrigins, false))
	}
	c.Req = g.request(targets, mode)
	if r.Chance(1, 150) {
		c.Req = nil
	}
	c.Ops = append(c.Ops, Step{K: "sub"})
	if mode == 2 {
		np := r.Pick(2, 4, 3, 2)
		if thoroughPolls {
			np += r.Intn(3)
		}
		for p := 0; p < np; p++ {
			ne := r.Pick(3, 4, 3)
			for i := 0; i < ne; i++ {
				c.Ops = append(c.Ops, g.cacheStep(targets, pathOrigins, true))
			}
			c.Ops = append(c.Ops, Step{K: "poll"})
		}
	} else if mode == 0 {
		ne := r.Intn(4)
		for i := 0; i < ne; i++ {
			c.Ops = append(c.Ops, g.cacheStep(targets, pathOrigins, true))
		}
	}
	return c
}

// gridCases: one fixed cache, every query path over {a,b,*} up to length 3,
// under every placement of the origin, against one target and against "*".
func gridCases(emit func(Case)) int {
	var init []Step
	ts := int64(0)
	put := func(t, o string, pe []Elem, path []Elem, v int64) {
		ts++
		init = append(init, Step{K: "update", N: &Noti{TS: ts, Prefix: GPath{Target: t, Origin: o, Elems: pe},
			Upds: []Upd{{Path: GPath{Elems: path}, Val: v}}}})
	}
	put("t1", "oc", nil, []Elem{el("a"), el("b")}, 1)
	put("t1", "oc", nil, []Elem{el("a"), el("a")}, 2)
	put("t1", "", nil, []Elem{el("a"), el("b")}, 3)
	put("t1", "", nil, []Elem{el("b"), el("a"), el("b")}, 4)
	put("t1", "foo", []Elem{el("a")}, []Elem{el("b"), el("a")}, 5)
	put("t1", "", nil, []Elem{el("oc"), el("b")}, 6)
	put("t2", "oc", nil, []Elem{el("a"), el("b")}, 7)
	put("t2", "", nil, []Elem{el("b")}, 8)
	put("t2", "", []Elem{el("a")}, []Elem{el("b", "k", "a")}, 9)
	ts++
	init = append(init, Step{K: "update", N: &Noti{TS: ts, Atomic: true, Prefix: GPath{Target: "t2", Origin: "oc", Elems: []Elem{el("b"), el("a")}},
		Upds: []Upd{{Path: GPath{Elems: []Elem{el("x")}}, Val: 1}, {Path: GPath{Elems: []Elem{el("y")}}, Val: 2}}}})
	names := []string{"a", "b", "*"}
	var paths [][]Elem
	var rec func(cur []Elem, d int)
	rec = func(cur []Elem, d int) {
		paths = append(paths, append([]Elem{}, cur...))
		if d == 3 {
			return
		}
		for _, n := range names {
			rec(append(cur, el(n)), d+1)
		}
	}
	rec(nil, 0)
	n := 0
	for _, p := range paths {
		for place := 0; place < 5; place++ {
			for _, tgt := range []string{"t1", "*"} {
				pf := &GPath{Target: tgt}
				sp := &GPath{Elems: p}
				switch place {
				case 1:
					pf.Origin = "oc"
				case 2:
					sp.Origin = "oc"
				case 3:
					pf.Origin = "foo"
				case 4:
					// first element of the path moved into the prefix
					if len(p) == 0 {
						continue
					}
					pf.Elems = p[:1]
					sp.Elems = p[1:]
				}
				c := Case{Targets: []string{"t1", "t2"}, Req: &Req{HasSub: true, Prefix: pf, Subs: []*GPath{sp}, Mode: 1}}
				c.Ops = append(append([]Step{}, init...), Step{K: "sub"})
				emit(c)
				n++
			}
		}
	}
	return n
}

func nontrivial(c *Case) bool {
	if c.R1.Status != "ok" {
		return false
	}
	for _, o := range c.R1.Obs {
		for _, r := range o.Group {
			if !r.Sync {
				return true
			}
		}
	}
	return false
}

func main() {
	o := vh.ParseFlags()
	quietLogs()
	meta := vh.NewMeta("corpus cases; grid: one fixed two-target cache (origins, keyed element, atomic container), every ONCE query path over {a,b,*} of length 0..3 x origin placement {none, prefix oc, path oc, prefix foo, first element in the prefix} x target {t1,*}; random: 1-3 targets, 2-10 initial notifications (single/multi update, atomic, delete, keyed elements, origins in prefix or path), one request (ONCE/POLL/few STREAM; 1-3 subscription paths of length 0..3 with globs at any position, origins in prefix/path incl. conflicts, missing path/prefix/target, unknown target, updates_only), POLL: 0-3 triggers with 0-2 cache edits (updates, deletes, target removal) before each. distinct = distinct inputs; non-trivial = the RPC ended OK and at least one update was delivered")
	e := &emitter{dir: o.Out, cf: newCaseFile(), meta: meta, limit: 300, require: "Subscribe.C05Check", nontriv: nontrivial}

	if o.Replay != "" {
		cs, err := readCases(o.Replay)
		if err != nil {
			die("replay: %v", err)
		}
		for _, c := range cs {
			e.add("replay", c)
		}
		e.flush()
		meta.Write(o.Out)
		return
	}
	if dir := os.Getenv("VERIF_CORPUS"); dir != "" {
		ents, _ := os.ReadDir(dir)
		var names []string
		for _, en := range ents {
			if strings.HasSuffix(en.Name(), ".json") {
				names = append(names, en.Name())
			}
		}
		sort.Strings(names)
		for _, nm := range names {
			cs, err := readCases(dir + "/" + nm)
			if err != nil {
				die("corpus file %s unreadable: %v", nm, err)
			}
			for _, c := range cs {
				e.add("corpus", c)
			}
		}
	}
	ng := gridCases(func(c Case) { e.add("grid", c) })
	meta.Extra["grid_cases"] = ng

	r := vh.NewRand(o.Seed)
	nrand := 2600
	if o.Thorough() {
		nrand = 40000
	}
	for i := 0; i < nrand; i++ {
		g := &gen{r: r.Fork()}
		switch g.r.Pick(42, 52, 6) {
		case 0:
			e.add("random-once", g.randomCase(1, o.Thorough()))
		case 1:
			e.add("random-poll", g.randomCase(2, o.Thorough()))
		default:
			m := 0
			if g.r.Chance(1, 4) {
				m = 7 // unknown mode
			}
			e.add("random-other-mode", g.randomCase(m, o.Thorough()))
		}
	}
	e.flush()
	if err := meta.Write(o.Out); err != nil {
		die("meta: %v", err)
	}
}

// Engine shared by the C05 and C07 harnesses (harness/c07/engine.go is a
// symbolic link to this file): runs one script against a real cache.Cache and
// subscribe.Server over an in-memory gnmi.GNMI_SubscribeServer stream, records
// every response passed to Send grouped by script step, and prints cases as
// Gallina terms for Subscribe.C05Check / Subscribe.C07Check.
package main

import (
	"bytes"
	"context"
	"encoding/json"
	"errors"
	"flag"
	"fmt"
	"io"
	"math"
	"net"
	"os"
	"path/filepath"
	"runtime"
	"sort"
	"strings"
	"sync"
	"sync/atomic"
	"time"

	"google.golang.org/grpc"
	"google.golang.org/grpc/codes"
	"google.golang.org/grpc/peer"
	"google.golang.org/grpc/status"

	"github.com/openconfig/gnmi/cache"
	"github.com/openconfig/gnmi/coalesce"
	"github.com/openconfig/gnmi/ctree"
	pb "github.com/openconfig/gnmi/proto/gnmi"
	"github.com/openconfig/gnmi/proto/gnmi_ext"
	"github.com/openconfig/gnmi/subscribe"
	"github.com/openconfig/gnmi/zz_verif/vh"
)

// ---------------------------------------------------------------------------
// Case description (JSON; only the inputs are read back on replay)

type Elem struct {
	Name string      `json:"n"`
	Keys [][2]string `json:"k,omitempty"` // key name, value
}

type GPath struct {
	Target string `json:"t,omitempty"`
	Origin string `json:"o,omitempty"`
	Elems  []Elem `json:"e,omitempty"`
	// Element: the deprecated element encoding set NEXT TO a non-empty elem
	// list (request paths only): path.ToStrings ignores it then, and so does
	// the model, which does not see it.
	Element []string `json:"el,omitempty"`
}

type Upd struct {
	Path GPath `json:"p"`
	Val  int64 `json:"v"`
}

type Noti struct {
	TS     int64   `json:"ts"`
	Prefix GPath   `json:"prefix"`
	Upds   []Upd   `json:"upds,omitempty"`
	Dels   []GPath `json:"dels,omitempty"`
	Atomic bool    `json:"atomic,omitempty"`
}

// Step kinds: "update" (Cache.GnmiUpdate N), "remove" (Cache.Remove Target at
// fake time Now), "sub" (the Subscribe call), "poll" (one trigger).
//
// Burst: 0 = ordinary step (the harness waits for quiescence after it); 1 / 2 =
// member / last member of a burst whose steps run concurrently (the Subscribe
// call in its own goroutine, cache operations by one writer goroutine per
// target in script order) with quiescence awaited only at the end.  Gate: a
// writer waits (briefly) until that many queue inserts have happened since the
// burst started, to spread the writes over the walk.
type Step struct {
	K      string `json:"k"`
	N      *Noti  `json:"n,omitempty"`
	Target string `json:"target,omitempty"`
	Now    int64  `json:"now,omitempty"`
	Burst  int    `json:"burst,omitempty"`
	Gate   int    `json:"gate,omitempty"`
	// Rows (step "aclset"): the operator replaces the ACL table
	Rows []ACLRow `json:"rows,omitempty"`
	// Seq (first member of a burst): the members are executed one after the other
	// by the harness (not by concurrent writers), waiting after each only until
	// every goroutine of the server is parked, a sender either on its empty queue
	// or at the closed gate of its stream; all gates are opened at the end.
	// Hold (Subscribe step / poll trigger): the gate of the first caller's stream
	// is closed just before the step, so that its walk completes while the sender
	// is parked at its first Send.  Step "gate": Target "a"/"b" = which caller's
	// stream, Gate = how many further Sends may pass (0 = closed, -1 = open).
	Seq  bool `json:"seq,omitempty"`
	Hold bool `json:"hold,omitempty"`
	// At (poll steps that directly follow the Subscribe step or another poll
	// step): when the client issues the trigger.  0: after the subscriber became
	// quiescent.  1: at the moment it receives the previous sync_response, i.e.
	// inside the stream's Send of that response, which returns only after the
	// server has read the trigger (a synchronous, zero-latency stream).  2: from
	// a goroutine started inside that Send (racing with its return).
	At int `json:"at,omitempty"`
	// Trig (poll steps): what the client sends as the trigger, whose contents the
	// server must ignore: 0 a Poll message, 1 the Subscribe request again, 2 a
	// request with no oneof set.
	Trig int `json:"trig,omitempty"`
	// IdleMS: the client stays idle for at least this long (the subscriber being
	// quiescent) before the step is executed.  A no-op for the model.
	IdleMS int `json:"idle_ms,omitempty"`
}

type Req struct {
	HasSub      bool     `json:"has_sub"`
	Prefix      *GPath   `json:"prefix,omitempty"`
	Subs        []*GPath `json:"subs"` // null entry = Subscription without a path
	Mode        int      `json:"mode"` // 0 STREAM 1 ONCE 2 POLL
	UpdatesOnly bool     `json:"updates_only,omitempty"`
	// Noise != 0: fields that are legal on the wire and that the server ignores
	// are set (derived from this seed): Subscription.mode / sample_interval /
	// heartbeat_interval / suppress_redundant, SubscriptionList.qos /
	// allow_aggregation / use_models / encoding, SubscribeRequest.extension.
	Noise uint64 `json:"noise,omitempty"`
}

type ACLRow struct {
	User   string `json:"user"`
	Target string `json:"target"`
	Allow  bool   `json:"allow"`
}

type OResp struct {
	Sync bool   `json:"sync,omitempty"`
	N    *Noti  `json:"n,omitempty"`
	Dup  uint32 `json:"dup,omitempty"`
}

type DEntry struct {
	Target string   `json:"t"`
	Path   []string `json:"p"`
	N      Noti     `json:"n"`
}

type OObs struct {
	Group   []OResp  `json:"group,omitempty"`
	CRes    string   `json:"cres"` // ok err panic
	Dump    []DEntry `json:"dump,omitempty"`
	HasDump bool     `json:"has_dump,omitempty"`
	Burst   int      `json:"burst,omitempty"`
}

type Run struct {
	Obs    []OObs   `json:"obs"`
	Status string   `json:"status"`
	Final  []DEntry `json:"final,omitempty"`
}

type Case struct {
	Family  string   `json:"family"`
	Targets []string `json:"targets"`
	HasACL  bool     `json:"has_acl,omitempty"`
	ACL     []ACLRow `json:"acl,omitempty"`
	User    *string  `json:"user,omitempty"`
	Req     *Req     `json:"req,omitempty"`
	Ops     []Step   `json:"ops"`
	// a second, overlapping call on the same server from the same peer address
	// (step "sub2"); View selects whose observations this entry carries
	Req2  *Req    `json:"req2,omitempty"`
	User2 *string `json:"user2,omitempty"`
	View  string  `json:"view,omitempty"`
	// ACLErr: the kind of error NewRPCACL fails with (plain error, gRPC status
	// errors of several codes, wrapped status errors, an error whose status has
	// code OK, context.DeadlineExceeded); ACLDown: it fails for every caller.
	ACLErr  int  `json:"acl_err,omitempty"`
	ACLDown bool `json:"acl_down,omitempty"`
	// faults of the stream (first call, first run only): SendFailAt = k > 0: the k-th
	// Send returns an error; RecvErrAt = j > 0: the j-th poll trigger's Recv returns
	// an error other than EOF.  FaultHit / RecvHit are observations: the fault
	// was actually reached.
	SendFailAt int  `json:"send_fail_at,omitempty"`
	RecvErrAt  int  `json:"recv_err_at,omitempty"`
	FaultHit   bool `json:"fault_hit,omitempty"`
	FailK      int  `json:"fail_k,omitempty"`
	RecvHit    bool `json:"recv_hit,omitempty"`
	// Build != 0: the server is constructed another way (derived from this
	// seed): the options in a permuted order, nil options interleaved, and
	// behaviour-neutral options added (WithStats, WithFlowControlTest, the stats
	// test hooks, WithTimeout(default)).  0 = WithACL, WithTimeout in that order.
	Build uint64 `json:"build,omitempty"`
	// OneP: the case runs with GOMAXPROCS(1) (makes the reuse of pooled objects
	// between two senders deterministic)
	OneP bool `json:"one_p,omitempty"`
	// Perturb: 1 = producers yield at the insert schedule point of the coalescing
	// queue, 2 = the consumer yields at the point where it found the queue empty
	Perturb int `json:"perturb,omitempty"`
	// TimeoutMS > 0: the server is built with subscribe.WithTimeout (the send
	// timeout; armed only while a Send is in progress, so idle gaps longer than
	// it must not matter).  IdleEndMS: idle gap before the client ends the
	// script (EOF / cancel).
	TimeoutMS int `json:"timeout_ms,omitempty"`
	IdleEndMS int `json:"idle_end_ms,omitempty"`
	// observations
	R1 *Run `json:"run,omitempty"`
	R2 *Run `json:"run_noacl,omitempty"`
}

// ---------------------------------------------------------------------------
// protobuf construction / projection

func pbPath(g GPath) *pb.Path {
	p := &pb.Path{Target: g.Target, Origin: g.Origin}
	if len(g.Elems) > 0 {
		p.Element = g.Element
	}
	for _, e := range g.Elems {
		pe := &pb.PathElem{Name: e.Name}
		if len(e.Keys) > 0 {
			pe.Key = map[string]string{}
			for _, kv := range e.Keys {
				pe.Key[kv[0]] = kv[1]
			}
		}
		p.Elem = append(p.Elem, pe)
	}
	return p
}

func pbNoti(n *Noti) *pb.Notification {
	out := &pb.Notification{Timestamp: n.TS, Prefix: pbPath(n.Prefix), Atomic: n.Atomic}
	for _, u := range n.Upds {
		out.Update = append(out.Update, &pb.Update{Path: pbPath(u.Path),
			Val: &pb.TypedValue{Value: &pb.TypedValue_IntVal{IntVal: u.Val}}})
	}
	for _, d := range n.Dels {
		out.Delete = append(out.Delete, pbPath(d))
	}
	return out
}

const weird = math.MinInt64 + 7

func projPath(p *pb.Path) GPath {
	g := GPath{Target: p.GetTarget(), Origin: p.GetOrigin()}
	for _, e := range p.GetElem() {
		el := Elem{Name: e.GetName()}
		ks := make([]string, 0, len(e.GetKey()))
		for k := range e.GetKey() {
			ks = append(ks, k)
		}
		sort.Strings(ks)
		for _, k := range ks {
			el.Keys = append(el.Keys, [2]string{k, e.GetKey()[k]})
		}
		g.Elems = append(g.Elems, el)
	}
	if len(p.GetElement()) > 0 {
		// deprecated element paths are never produced by this harness
		g.Elems = append(g.Elems, Elem{Name: "\x00element:" + strings.Join(p.GetElement(), "/")})
	}
	return g
}

func projNoti(n *pb.Notification) (Noti, uint32) {
	out := Noti{TS: n.GetTimestamp(), Atomic: n.GetAtomic()}
	if n.GetPrefix() == nil {
		out.Prefix = GPath{Target: "\x00nil-prefix"}
	} else {
		out.Prefix = projPath(n.GetPrefix())
	}
	var dup uint32
	for i, u := range n.GetUpdate() {
		v := int64(weird)
		if iv, ok := u.GetVal().GetValue().(*pb.TypedValue_IntVal); ok {
			v = iv.IntVal
		}
		if u.GetPath() == nil {
			out.Upds = append(out.Upds, Upd{Path: GPath{Target: "\x00nil-path"}, Val: v})
		} else {
			out.Upds = append(out.Upds, Upd{Path: projPath(u.GetPath()), Val: v})
		}
		if i == 0 {
			dup = u.GetDuplicates()
		} else if u.GetDuplicates() != 0 {
			out.Upds[i].Val = weird
		}
	}
	for _, d := range n.GetDelete() {
		out.Dels = append(out.Dels, projPath(d))
	}
	return out, dup
}

// ---------------------------------------------------------------------------
// fake ACL and stream

type userKey struct{}

type fakeACL struct {
	mu   sync.Mutex
	rows []ACLRow
	// how NewRPCACL fails (when the context names no user, or always if down)
	errKind int
	down    bool
}

// okStatusError is an error whose gRPC status has code OK.
type okStatusError struct{}

func (okStatusError) Error() string              { return "acl backend: ok?" }
func (okStatusError) GRPCStatus() *status.Status { return status.New(codes.OK, "") }

func aclError(kind int) error {
	switch kind {
	case 1:
		return status.Error(codes.Unavailable, "policy service unavailable")
	case 2:
		return status.Error(codes.PermissionDenied, "policy service: denied")
	case 3:
		return fmt.Errorf("acl backend: %w", status.Error(codes.NotFound, "no such principal"))
	case 4:
		return okStatusError{}
	case 5:
		return status.Error(codes.InvalidArgument, "bad credentials")
	case 6:
		return context.DeadlineExceeded
	case 7:
		return fmt.Errorf("acl backend: %w", okStatusError{})
	case 8:
		return status.Error(codes.Internal, "policy service crashed")
	}
	return errors.New("no user in context")
}

func (a *fakeACL) set(rows []ACLRow) {
	a.mu.Lock()
	a.rows = rows
	a.mu.Unlock()
}

func (a *fakeACL) Check(user, dev string) bool {
	a.mu.Lock()
	defer a.mu.Unlock()
	for _, r := range a.rows {
		if r.User == user && r.Target == dev && r.Allow {
			return true
		}
	}
	return false
}

type rpcACL struct {
	a    *fakeACL
	user string
}

func (r *rpcACL) Check(dev string) bool { return r.a.Check(r.user, dev) }

func (a *fakeACL) NewRPCACL(ctx context.Context) (subscribe.RPCACL, error) {
	u, ok := ctx.Value(userKey{}).(string)
	if !ok || a.down {
		return nil, aclError(a.errKind)
	}
	return &rpcACL{a: a, user: u}, nil
}

type memStream struct {
	grpc.ServerStream
	ctx   context.Context
	reqs  chan *pb.SubscribeRequest
	mu    sync.Mutex
	cur   []OResp
	syncs int64 // sync responses sent so far (atomic)
	// handed: requests (the first one, triggers, injected Recv errors) the client
	// has committed to put on the request stream; recvd: requests Recv has handed
	// to the server.  A polling call is not quiescent while recvd < handed.
	handed, recvd int64
	// the gate: -1 open; k >= 0: k more Sends may pass, then Send blocks.  A Send
	// waits at the gate BEFORE it looks at the response: what is recorded is what
	// the stream carries at the time it is actually written.
	gate     int
	gateCond *sync.Cond
	// a trigger the client issues when it receives the next sync_response
	armed   *pb.SubscribeRequest
	armMode int
	fired   bool
	split   int // responses recorded up to the sync that fired the trigger; -1: none
	stash   []OResp
	// fault injection
	failAt, sends, failK int
	failed               bool
	recvErr              chan struct{} // a value here makes the next Recv fail
	recvFailed           bool
}

var errStream = errors.New("transport is closing")

var at2Delay = func() time.Duration {
	var us int
	fmt.Sscan(os.Getenv("VERIF_AT2_DELAY_US"), &us)
	return time.Duration(us) * time.Microsecond
}()

func (s *memStream) Context() context.Context { return s.ctx }

func (s *memStream) Recv() (*pb.SubscribeRequest, error) {
	select {
	case r, ok := <-s.reqs:
		if !ok {
			return nil, io.EOF
		}
		atomic.AddInt64(&s.recvd, 1)
		return r, nil
	case <-s.recvErr:
		s.mu.Lock()
		s.recvFailed = true
		s.mu.Unlock()
		atomic.AddInt64(&s.recvd, 1)
		return nil, errStream
	}
}

func (s *memStream) setGate(k int) {
	s.mu.Lock()
	s.gate = k
	s.mu.Unlock()
	s.gateCond.Broadcast()
}

func (s *memStream) Send(r *pb.SubscribeResponse) error {
	s.mu.Lock()
	for s.gate == 0 {
		s.gateCond.Wait()
	}
	if s.gate > 0 {
		s.gate--
	}
	s.sends++
	// failAt = k > 0: the k-th Send fails; failAt = -1: the first Send of a
	// response that carries a duplicate count fails
	dupd := false
	if u := r.GetUpdate().GetUpdate(); len(u) > 0 && u[0].GetDuplicates() > 0 {
		dupd = true
	}
	if !s.failed && ((s.failAt > 0 && s.sends >= s.failAt) || (s.failAt == -1 && dupd)) {
		s.failed = true
		s.failK = s.sends
		s.mu.Unlock()
		return errStream
	}
	if s.failed {
		s.mu.Unlock()
		return errStream
	}
	s.mu.Unlock()
	var o OResp
	switch v := r.GetResponse().(type) {
	case *pb.SubscribeResponse_SyncResponse:
		o = OResp{Sync: true}
		atomic.AddInt64(&s.syncs, 1)
		if !v.SyncResponse {
			o = OResp{N: &Noti{TS: weird}}
		}
	case *pb.SubscribeResponse_Update:
		n, d := projNoti(v.Update)
		o = OResp{N: &n, Dup: d}
	default:
		o = OResp{N: &Noti{TS: weird}}
	}
	s.mu.Lock()
	s.cur = append(s.cur, o)
	var msg *pb.SubscribeRequest
	mode := 0
	if o.Sync && s.armed != nil {
		// the client has the sync_response in hand: it polls again at once
		msg, mode = s.armed, s.armMode
		s.armed, s.fired, s.split = nil, true, len(s.cur)
	}
	s.mu.Unlock()
	if msg != nil {
		atomic.AddInt64(&s.handed, 1) // committed now, whenever the goroutine below gets to run
		if mode == 2 {
			go func() {
				// VERIF_AT2_DELAY_US (testing the harness itself): delay the racing trigger
				if d := at2Delay; d > 0 {
					time.Sleep(d)
				}
				s.reqs <- msg
			}()
		} else {
			s.reqs <- msg
			// Send returns only after the server has taken the trigger off the
			// stream and had a moment to act on it
			for t0 := time.Now(); len(s.reqs) > 0 && time.Since(t0) < 2*time.Millisecond; {
				runtime.Gosched()
			}
			for t0 := time.Now(); time.Since(t0) < 100*time.Microsecond; {
				runtime.Gosched()
			}
		}
	}
	return nil
}

// take returns what was recorded since the last call; when a trigger was fired
// from inside a Send, the responses up to that sync_response first, and the rest
// with the next call (they answer the trigger, which is the next step).
func (s *memStream) take() []OResp {
	s.mu.Lock()
	defer s.mu.Unlock()
	g := s.cur
	s.cur = nil
	if s.stash != nil {
		g = append(s.stash, g...)
		s.stash = nil
	}
	if s.split >= 0 && s.split <= len(g) {
		first := g[:s.split:s.split]
		s.stash = append([]OResp{}, g[s.split:]...)
		s.split = -1
		return first
	}
	s.split = -1
	return g
}

// ---------------------------------------------------------------------------
// quiescence: recognised from the goroutines' own states (runtime.Stack), never
// from a timeout.  The subscriber is quiescent when Subscribe has returned and
// no goroutine of the server is left running, or when the sender is parked in
// the select of coalesce.Queue.Next (queue empty: a pending "inserted" token
// would have made it runnable) or at the closed gate of its stream, no
// processSubscription walk is in flight, a polling goroutine, if any, is parked
// in the stream's Recv, AND every request the client of a polling call has
// committed to send (counted at the moment of commitment, also for a trigger
// sent by a goroutine started inside Send) has been handed to the server by
// Recv - read before and after the goroutine snapshot, unchanged in between.

type gstate struct {
	server        int // goroutines with a frame of subscribe.(*Server)
	blocked       int // of those: parked in a select or a channel receive
	parkedSenders int // parked in the select of coalesce.Queue.Next
	parkedPollers int // parked in the stream's Recv below processPollingSubscription
	gatedSenders  int // parked at the closed gate of their stream's Send
	ids           []string
}

var stackBuf = make([]byte, 1<<20)

// goroutines leaked by earlier cases that hung (a wedged cache keeps its walker
// and writers blocked for ever); they are not counted again.
var ignoredG = map[string]bool{}

func goroutineStates() gstate {
	n := runtime.Stack(stackBuf, true)
	var g gstate
	for _, blk := range bytes.Split(stackBuf[:n], []byte("\n\n")) {
		nl := bytes.IndexByte(blk, '\n')
		if nl < 0 {
			continue
		}
		head, body := blk[:nl], blk[nl:]
		if !bytes.Contains(body, []byte("gnmi/subscribe.(*Server).")) {
			continue
		}
		id := ""
		if f := bytes.Fields(head); len(f) > 1 {
			id = string(f[1])
		}
		if ignoredG[id] {
			continue
		}
		g.server++
		g.ids = append(g.ids, id)
		st := ""
		if i := bytes.IndexByte(head, '['); i >= 0 {
			st = string(head[i+1:])
		}
		sel, rcv := strings.HasPrefix(st, "select"), strings.HasPrefix(st, "chan receive")
		gated := strings.HasPrefix(st, "sync.Cond.Wait") && bytes.Contains(body, []byte("(*memStream).Send("))
		if sel || rcv || gated {
			g.blocked++
		}
		if gated {
			g.gatedSenders++
		}
		if sel && bytes.Contains(body, []byte("coalesce.(*Queue).Next(")) {
			g.parkedSenders++
		}
		if (rcv || sel) && bytes.Contains(body, []byte("(*Server).processPollingSubscription(")) && bytes.Contains(body, []byte("(*memStream).Recv(")) {
			g.parkedPollers++
		}
	}
	return g
}

func pause(i int) {
	if i < 50 {
		runtime.Gosched()
	} else {
		time.Sleep(20 * time.Microsecond)
	}
}

// one Subscribe call in flight
type rpc struct {
	st         *memStream
	cancel     context.CancelFunc
	done       chan struct{}
	err        error
	panicked   bool
	started    bool
	closedReqs bool
	req        *Req
}

func (r *rpc) returned() bool {
	select {
	case <-r.done:
		return true
	default:
		return false
	}
}

// settle waits until every started RPC is quiescent (returned with no goroutine
// left but a poller parked in Recv, or: every goroutine of the server parked and
// one sender per live RPC waiting for an item); false = watchdog expired.
func settle(rpcs []*rpc, limit time.Duration) bool {
	t0 := time.Now()
	for i := 0; ; i++ {
		started, live := 0, 0
		for _, r := range rpcs {
			if r.started {
				started++
				if !r.returned() {
					live++
				} else {
					r.st.setGate(-1) // the call is over: its sender must be able to drain and leave
				}
			}
		}
		if started == 0 {
			return true
		}
		// requests committed by the clients of polling calls and not yet handed to
		// the server, read BEFORE the goroutine snapshot (and again after it)
		pendingNow := func() (int64, bool) {
			var sum int64
			pend := false
			for _, r := range rpcs {
				if r.started && !r.returned() && r.req != nil && r.req.HasSub && r.req.Mode == 2 {
					h, v := atomic.LoadInt64(&r.st.handed), atomic.LoadInt64(&r.st.recvd)
					sum += h
					if v < h {
						pend = true
					}
				}
			}
			return sum, pend
		}
		h0, p0 := pendingNow()
		g := goroutineStates()
		if live == 0 {
			if g.server == g.parkedPollers {
				return true
			}
		} else if g.server == g.blocked && g.parkedSenders+g.gatedSenders == live {
			// ... and a polling call has been handed everything its client sent
			// (a trigger issued from inside a Send, possibly by a goroutine that has
			// not run yet, is "sent" from the moment the client committed to it)
			still := 0
			for _, r := range rpcs {
				if r.started && !r.returned() {
					still++
				}
			}
			h2, p2 := pendingNow()
			pending := p0 || p2 || h0 != h2
			if still == live && !pending {
				return true
			}
			if still != live {
				continue
			}
		}
		if i%64 == 63 && time.Since(t0) > limit {
			return false
		}
		pause(i)
	}
}

// drainServer waits until no goroutine of the server is left.
func drainServer(limit time.Duration) bool {
	t0 := time.Now()
	for i := 0; ; i++ {
		if goroutineStates().server == 0 {
			return true
		}
		if i%64 == 63 && time.Since(t0) > limit {
			return false
		}
		pause(i)
	}
}

// ---------------------------------------------------------------------------
// running one case

var fakeNow int64

// polluted: some dump of the current run found a stored notification carrying a
// duplicate count (an implementation detail gone wrong: reported through the
// correspondence, as an impossible cache-operation outcome of the last step)
var polluted bool

func dumpCache(ca *cache.Cache, targets []string) []DEntry {
	var out []DEntry
	for _, t := range targets {
		ca.Query(t, []string{"*"}, func(p []string, _ *ctree.Leaf, v interface{}) error {
			n, ok := v.(*pb.Notification)
			if !ok {
				out = append(out, DEntry{Target: t, Path: append([]string{}, p...), N: Noti{TS: weird}})
				return nil
			}
			pn, dup := projNoti(n)
			if dup != 0 {
				polluted = true // a stored notification must never carry a client's duplicate count
			}
			out = append(out, DEntry{Target: t, Path: append([]string{}, p...), N: pn})
			return nil
		})
	}
	return out
}

func statusName(err error) string {
	if err == nil {
		return "ok"
	}
	if errors.Is(err, context.Canceled) {
		return "canceled"
	}
	switch status.Code(err) {
	case codes.InvalidArgument:
		return "invalid"
	case codes.NotFound:
		return "notfound"
	case codes.PermissionDenied:
		return "denied"
	case codes.Unauthenticated:
		return "unauthenticated"
	case codes.Unknown:
		return "unknown"
	}
	return "other"
}

// watchdog for a subscriber that never becomes quiescent / an RPC that never
// returns (e.g. a walk deadlocked with a writer).  After a few hangs in one
// run it is shortened so that a tree that hangs everywhere still ends.
var watchdog = 6 * time.Second
var hangs int

func noteHang() {
	hangs++
	watchdog = 1500 * time.Millisecond
	if hangs >= 3 {
		watchdog = 500 * time.Millisecond
	}
}

func pbRequest(r *Req) *pb.SubscribeRequest {
	if !r.HasSub {
		return &pb.SubscribeRequest{Request: &pb.SubscribeRequest_Poll{Poll: &pb.Poll{}}}
	}
	sl := &pb.SubscriptionList{Mode: pb.SubscriptionList_Mode(r.Mode), UpdatesOnly: r.UpdatesOnly}
	if r.Prefix != nil {
		sl.Prefix = pbPath(*r.Prefix)
	}
	var nz *vh.Rand
	if r.Noise != 0 {
		nz = vh.NewRand(r.Noise)
		if nz.Chance(1, 2) {
			sl.Qos = &pb.QOSMarking{Marking: uint32(nz.Intn(64))}
		}
		sl.AllowAggregation = nz.Chance(1, 2)
		if nz.Chance(1, 2) {
			sl.UseModels = []*pb.ModelData{{Name: "openconfig-interfaces", Organization: "oc", Version: "1.0"}}
		}
		sl.Encoding = pb.Encoding(nz.Intn(5))
	}
	for _, s := range r.Subs {
		sub := &pb.Subscription{}
		if s != nil {
			sub.Path = pbPath(*s)
		}
		if nz != nil {
			sub.Mode = pb.SubscriptionMode(nz.Intn(3))
			sub.SampleInterval = uint64(nz.Intn(3)) * 1000000000
			sub.HeartbeatInterval = uint64(nz.Intn(2)) * 5000000000
			sub.SuppressRedundant = nz.Chance(1, 2)
		}
		sl.Subscription = append(sl.Subscription, sub)
	}
	req := &pb.SubscribeRequest{Request: &pb.SubscribeRequest_Subscribe{Subscribe: sl}}
	if nz != nil && nz.Chance(1, 2) {
		req.Extension = []*gnmi_ext.Extension{{Ext: &gnmi_ext.Extension_RegisteredExt{RegisteredExt: &gnmi_ext.RegisteredExtension{Id: gnmi_ext.ExtensionID_EID_EXPERIMENTAL, Msg: []byte("x")}}}}
	}
	return req
}

// insertCount counts coalesce.Queue.Insert calls (hook point insert:checked).
var insertCount int64

// perturb (Case.Perturb = 1): every queue insert of the case yields for a moment at
// the schedule point between Insert's closed/emptiness checks and the locked
// insert, so that the sender can drain the queue and park in Next in between.
var perturb int32

func installHooks() {
	coalesce.VerifHook = func(p string) {
		if p == "insert:checked" {
			atomic.AddInt64(&insertCount, 1)
			if atomic.LoadInt32(&perturb) == 1 {
				for t0 := time.Now(); time.Since(t0) < 40*time.Microsecond; {
					runtime.Gosched()
				}
			}
		}
		// the consumer found the queue empty and is about to wait: let the
		// producer insert the rest (and close the queue) before it selects
		if p == "next:empty" && atomic.LoadInt32(&perturb) == 2 {
			for t0 := time.Now(); time.Since(t0) < 150*time.Microsecond; {
				runtime.Gosched()
			}
		}
	}
}

// normaliseBursts makes the burst flags well formed (a shrunk or hand-written
// script may have lost members): a maximal run of flagged steps becomes
// 1,…,1,2; a run of one step, and a run with a Subscribe step or poll trigger
// that is not its first member, are unflagged.
func normaliseBursts(ops []Step) {
	for i := 0; i < len(ops); {
		if ops[i].Burst == 0 {
			i++
			continue
		}
		j := i
		ok := true
		for j < len(ops) && ops[j].Burst != 0 {
			if (ops[j].K == "poll" || ops[j].K == "sub" || ops[j].K == "sub2") && j > i {
				ok = false
			}
			last := ops[j].Burst == 2
			j++
			if last {
				break
			}
		}
		if j-i < 2 || !ok || ops[i].K == "sub2" {
			for k := i; k < j; k++ {
				ops[k].Burst = 0
			}
		} else {
			for k := i; k < j; k++ {
				ops[k].Burst = 1
			}
			ops[j-1].Burst = 2
		}
		i = j
	}
}

// serverOptions: the option list NewServer is called with.  WithoutDupReport
// is the one exported option left out: it removes the duplicate counts the
// comparison of coalesced responses relies on.
func serverOptions(c *Case, withACL bool, acl *fakeACL) []subscribe.Option {
	var opts []subscribe.Option
	if withACL && c.HasACL {
		opts = append(opts, subscribe.WithACL(acl))
	}
	if c.TimeoutMS > 0 {
		opts = append(opts, subscribe.WithTimeout(time.Duration(c.TimeoutMS)*time.Millisecond))
	}
	if c.Build == 0 {
		return opts
	}
	r := vh.NewRand(c.Build)
	if c.TimeoutMS == 0 && r.Chance(1, 2) {
		opts = append(opts, subscribe.WithTimeout(time.Minute))
	}
	if r.Chance(1, 2) {
		opts = append(opts, subscribe.WithStats())
	}
	if r.Chance(1, 3) {
		opts = append(opts, subscribe.WithFlowControlTest(func() {}))
	}
	if r.Chance(1, 3) {
		opts = append(opts, subscribe.WithClientStatsTest(func(int64, int64) {}))
	}
	if r.Chance(1, 4) {
		opts = append(opts, subscribe.WithUpdateSubsCountEnterTest(func() {}), subscribe.WithUpdateSubsCountExitTest(func() {}))
	}
	// nil options (tolerated by NewServer) at random positions, then a permutation
	for k := r.Intn(3); k >= 0; k-- {
		opts = append(opts, nil)
	}
	for i := len(opts) - 1; i > 0; i-- {
		j := r.Intn(i + 1)
		opts[i], opts[j] = opts[j], opts[i]
	}
	return opts
}

// addNoise decorates a generated case with what the code under test is
// supposed to ignore: a target (and the deprecated element list) on
// subscription paths and the prefix's element list, ignored request fields,
// another way of constructing the server.
func addNoise(r *vh.Rand, c *Case) {
	noisePath := func(p *GPath, isPrefix bool) {
		if p == nil {
			return
		}
		if !isPrefix && r.Chance(1, 8) {
			p.Target = []string{"t1", "t2", "tx", "*"}[r.Intn(4)] // a target is only meaningful in the prefix
		}
		if len(p.Elems) > 0 && r.Chance(1, 10) {
			p.Element = []string{"zz", "a"}[:1+r.Intn(2)]
		}
	}
	for _, rq := range []*Req{c.Req, c.Req2} {
		if rq == nil {
			continue
		}
		if r.Chance(1, 4) {
			rq.Noise = r.U64() | 1
		}
		noisePath(rq.Prefix, true)
		for _, sp := range rq.Subs {
			noisePath(sp, false)
		}
	}
	if r.Chance(1, 3) {
		c.Build = r.U64() | 1
	}
	bursts := false
	for _, o := range c.Ops {
		if o.Burst != 0 {
			bursts = true
		}
	}
	if c.Req2 == nil && c.TimeoutMS == 0 && !bursts {
		npolls := 0
		for _, o := range c.Ops {
			if o.K == "poll" {
				npolls++
			}
		}
		switch {
		case r.Chance(1, 25):
			c.SendFailAt = 1 + r.Intn(6)
		case r.Chance(1, 25):
			c.SendFailAt = -1
		case npolls > 0 && r.Chance(1, 10):
			c.RecvErrAt = 1 + r.Intn(npolls)
		}
	}
	for i := range c.Ops {
		if c.Ops[i].K == "poll" && r.Chance(1, 5) {
			c.Ops[i].Trig = 1 + r.Intn(2)
		}
		// a trigger that directly follows a walk: issued on receipt of its sync
		if i > 0 && c.Ops[i].K == "poll" && c.Ops[i].Burst == 0 && c.Ops[i].IdleMS == 0 &&
			(c.Ops[i-1].K == "sub" || c.Ops[i-1].K == "poll") && c.Ops[i-1].Burst == 0 && r.Chance(1, 2) {
			c.Ops[i].At = 1 + r.Intn(2)
		}
	}
	if c.HasACL {
		if r.Chance(1, 2) {
			c.ACLErr = 1 + r.Intn(8)
		}
		c.ACLDown = r.Chance(1, 20)
	}
}

// cacheOptions: with Case.Build the cache is constructed with nil options and
// options that do not change how data is stored (anything else is not the
// default cache this model describes).
func cacheOptions(c *Case) []cache.Option {
	if c.Build == 0 {
		return nil
	}
	r := vh.NewRand(c.Build ^ 0xcac4e)
	var opts []cache.Option
	if r.Chance(1, 2) {
		opts = append(opts, cache.WithServerName("srv"))
	}
	if r.Chance(1, 2) {
		opts = append(opts, cache.WithAvgLatencyPrecision(time.Millisecond))
	}
	if r.Chance(1, 2) {
		opts = append(opts, cache.WithExcludedMeta([]string{"x"}))
	}
	if r.Chance(1, 2) {
		opts = append(opts, cache.WithFutureThreshold(time.Hour))
	}
	for k := r.Intn(3); k >= 0; k-- {
		opts = append(opts, nil)
	}
	for i := len(opts) - 1; i > 0; i-- {
		j := r.Intn(i + 1)
		opts[i], opts[j] = opts[j], opts[i]
	}
	return opts
}

func op0(members []Step) Step { return members[0] }

func trigger(op Step, rq *Req) *pb.SubscribeRequest {
	switch op.Trig {
	case 1:
		if rq != nil {
			return pbRequest(rq)
		}
	case 2:
		return &pb.SubscribeRequest{}
	}
	return &pb.SubscribeRequest{Request: &pb.SubscribeRequest_Poll{Poll: &pb.Poll{}}}
}

func opTarget(op Step) string {
	if op.K == "update" {
		return op.N.Prefix.Target
	}
	return op.Target
}

// runScript executes the script of c on one cache and one server.  It returns
// one Run per RPC of the script: the call of step "sub" (request c.Req, user
// c.User) and, if there is a step "sub2", a second call on the same server from
// the same peer address (request c.Req2, user c.User2) that overlaps the first.
func runScript(c *Case, withACL bool, faults bool) []*Run {
	polluted = false
	if c.OneP {
		defer runtime.GOMAXPROCS(runtime.GOMAXPROCS(1))
	}
	if c.Perturb != 0 {
		atomic.StoreInt32(&perturb, int32(c.Perturb))
		defer atomic.StoreInt32(&perturb, 0)
	}
	cache.Now = func() time.Time { return time.Unix(0, fakeNow) }
	ca := cache.New(c.Targets, cacheOptions(c)...)
	acl := &fakeACL{rows: c.ACL, errKind: c.ACLErr, down: c.ACLDown}
	srv, _ := subscribe.NewServer(ca, serverOptions(c, withACL, acl)...)
	ca.SetClient(srv.Update)

	// both callers arrive from the same peer address
	base := peer.NewContext(context.Background(), &peer.Peer{Addr: &net.TCPAddr{IP: net.IPv4(127, 0, 0, 1), Port: 1}})
	mk := func(user *string, req *Req) *rpc {
		ctx := base
		if user != nil {
			ctx = context.WithValue(ctx, userKey{}, *user)
		}
		ctx, cancel := context.WithCancel(ctx)
		ms := &memStream{ctx: ctx, split: -1, gate: -1, reqs: make(chan *pb.SubscribeRequest, 8), recvErr: make(chan struct{}, 1)}
		ms.gateCond = sync.NewCond(&ms.mu)
		return &rpc{st: ms, cancel: cancel, done: make(chan struct{}), req: req}
	}
	rpcs := []*rpc{mk(c.User, c.Req)}
	if faults {
		rpcs[0].st.failAt = c.SendFailAt
	}
	polls := 0
	two := false
	for _, op := range c.Ops {
		if op.K == "sub2" {
			two = true
		}
	}
	if two {
		rpcs = append(rpcs, mk(c.User2, c.Req2))
	}
	runs := make([]*Run, len(rpcs))
	for i := range runs {
		runs[i] = &Run{}
	}
	hung := false

	applyCache := func(op Step, ob *OObs) {
		defer func() {
			if r := recover(); r != nil {
				ob.CRes = "panic"
			}
		}()
		switch op.K {
		case "update":
			if err := ca.GnmiUpdate(pbNoti(op.N)); err != nil {
				ob.CRes = "err"
			}
		case "remove":
			fakeNow = op.Now
			ca.Remove(op.Target)
		case "addtarget":
			ca.Add(op.Target)
		case "churn":
			ca.Remove(op.Target)
			ca.Add(op.Target)
		case "aclset":
			acl.set(op.Rows)
		}
	}
	startRPC := func(r *rpc) {
		r.started = true
		if r.req != nil {
			atomic.AddInt64(&r.st.handed, 1)
			r.st.reqs <- pbRequest(r.req)
		} else {
			close(r.st.reqs)
			r.closedReqs = true
		}
		go func() {
			defer close(r.done)
			defer func() {
				if x := recover(); x != nil {
					r.panicked = true
				}
			}()
			r.err = srv.Subscribe(r.st)
		}()
	}
	waitQuiet := func() {
		if !hung && !settle(rpcs, watchdog) {
			hung = true
			noteHang()
		}
	}
	// record appends one observation per RPC for a step
	record := func(ob OObs, withGroup bool) {
		for i, r := range rpcs {
			o := ob
			if withGroup {
				o.Group = r.st.take()
			}
			runs[i].Obs = append(runs[i].Obs, o)
		}
	}
	// doStep performs one step (no waiting, no recording)
	doStep := func(op Step, ob *OObs) {
		if op.Hold {
			rpcs[0].st.setGate(0)
		}
		switch op.K {
		case "update", "remove", "addtarget", "churn", "aclset":
			applyCache(op, ob)
		case "gate":
			r := rpcs[0]
			if op.Target == "b" && two {
				r = rpcs[1]
			}
			r.st.setGate(op.Gate)
		case "sub":
			if !rpcs[0].started {
				startRPC(rpcs[0])
			}
			ob.HasDump = true
		case "sub2":
			if two && !rpcs[1].started {
				startRPC(rpcs[1])
			}
			ob.HasDump = true
		case "poll":
			rpcs[0].st.mu.Lock()
			fired := rpcs[0].st.fired
			rpcs[0].st.fired = false
			rpcs[0].st.mu.Unlock()
			if r := rpcs[0]; fired {
				polls++ // the trigger was issued from inside the previous sync's Send
			} else if r.started && !r.closedReqs && !r.returned() {
				polls++
				if faults && c.RecvErrAt > 0 && polls == c.RecvErrAt {
					atomic.AddInt64(&r.st.handed, 1)
					r.st.recvErr <- struct{}{}
				} else {
					atomic.AddInt64(&r.st.handed, 1)
					r.st.reqs <- trigger(op, r.req)
				}
			}
			ob.HasDump = true
		}
	}
	openGates := func() {
		for _, r := range rpcs {
			r.st.setGate(-1)
		}
	}
	normaliseBursts(c.Ops)
	for i := 0; i < len(c.Ops); i++ {
		op := c.Ops[i]
		if hung {
			// the subscriber (or the cache) is stuck: nothing more is executed
			record(OObs{CRes: "ok", Burst: op.Burst}, false)
			continue
		}
		if op.Burst != 0 {
			j := i
			for j < len(c.Ops) && c.Ops[j].Burst == 1 {
				j++
			}
			members := c.Ops[i : j+1]
			obs := make([]OObs, len(members))
			for k := range obs {
				obs[k] = OObs{CRes: "ok", Burst: members[k].Burst}
			}
			if members[0].Seq {
				// a scripted span: one member after the other, the senders stepped
				// through the gates of their streams
				if members[0].K == "sub" || members[0].K == "poll" {
					obs[0].HasDump = true
					obs[0].Dump = dumpCache(ca, c.Targets)
				}
				for k := range members {
					if hung {
						break
					}
					hd := obs[k].HasDump
					doStep(members[k], &obs[k])
					obs[k].HasDump = hd
					waitQuiet()
				}
				openGates()
				waitQuiet()
				last := len(obs) - 1
				if !hung {
					obs[last].HasDump = true
					obs[last].Dump = dumpCache(ca, c.Targets)
				}
				for k := range obs {
					record(obs[k], k == len(obs)-1)
				}
				i = j
				continue
			}
			walk := (members[0].K == "sub" && !rpcs[0].started) ||
				(members[0].K == "poll" && rpcs[0].started && !rpcs[0].closedReqs && !rpcs[0].returned())
			if members[0].K == "sub" || members[0].K == "poll" {
				obs[0].HasDump = true
				obs[0].Dump = dumpCache(ca, c.Targets)
			}
			base := atomic.LoadInt64(&insertCount)
			syncs0 := atomic.LoadInt64(&rpcs[0].st.syncs)
			perTarget := map[string][]int{}
			var order []string
			for k, m := range members {
				switch m.K {
				case "update", "remove", "addtarget", "churn":
					t := opTarget(m)
					if _, ok := perTarget[t]; !ok {
						order = append(order, t)
					}
					perTarget[t] = append(perTarget[t], k)
				}
			}
			var wg sync.WaitGroup
			for _, t := range order {
				idx := perTarget[t]
				wg.Add(1)
				go func() {
					defer wg.Done()
					for _, k := range idx {
						m := members[k]
						t0 := time.Now()
						if m.K == "churn" {
							// Remove/Add in a loop for as long as the walk runs
							for n := 0; ; n++ {
								applyCache(m, &obs[k])
								if n >= 50 && (!walk || atomic.LoadInt64(&rpcs[0].st.syncs) > syncs0 || rpcs[0].returned() || time.Since(t0) > 50*time.Millisecond) {
									break
								}
							}
							continue
						}
						for n := 0; atomic.LoadInt64(&insertCount)-base < int64(m.Gate) && time.Since(t0) < 300*time.Microsecond; n++ {
							runtime.Gosched()
						}
						applyCache(m, &obs[k])
					}
				}()
			}
			switch {
			case members[0].K == "sub" && !rpcs[0].started:
				startRPC(rpcs[0])
			case members[0].K == "poll" && walk:
				atomic.AddInt64(&rpcs[0].st.handed, 1)
				rpcs[0].st.reqs <- trigger(op0(members), rpcs[0].req)
			}
			writersDone := make(chan struct{})
			go func() { wg.Wait(); close(writersDone) }()
			select {
			case <-writersDone:
				waitQuiet()
			case <-time.After(watchdog):
				hung = true // a writer never came back: the cache is wedged
				noteHang()
			}
			last := len(obs) - 1
			if !hung {
				obs[last].HasDump = true
				obs[last].Dump = dumpCache(ca, c.Targets)
			}
			for k := range obs {
				record(obs[k], k == len(obs)-1) // the last member carries everything recorded during the burst
			}
			i = j
			continue
		}
		if op.IdleMS > 0 && rpcs[0].started {
			time.Sleep(time.Duration(op.IdleMS) * time.Millisecond) // a lower bound is all that matters
		}
		// the next step is a trigger the client issues on receipt of this walk's sync
		if (op.K == "sub" || op.K == "poll") && c.Req != nil && c.Req.Mode == 2 && i+1 < len(c.Ops) {
			if nx := c.Ops[i+1]; nx.K == "poll" && nx.At != 0 && nx.Burst == 0 && nx.IdleMS == 0 &&
				!(faults && (c.RecvErrAt > 0 || c.SendFailAt != 0)) {
				st := rpcs[0].st
				st.mu.Lock()
				st.armed, st.armMode = trigger(nx, rpcs[0].req), nx.At
				st.mu.Unlock()
			}
		}
		ob := OObs{CRes: "ok"}
		doStep(op, &ob)
		waitQuiet()
		rpcs[0].st.mu.Lock()
		rpcs[0].st.armed = nil // not fired (no sync came): the next step sends its trigger itself
		rpcs[0].st.mu.Unlock()
		if ob.HasDump && !hung {
			ob.Dump = dumpCache(ca, c.Targets)
		} else {
			ob.HasDump = false
		}
		record(ob, true)
	}
	openGates()
	// end of script: the clients end their calls (EOF for a poller, then cancel)
	if c.IdleEndMS > 0 && rpcs[0].started && !hung {
		time.Sleep(time.Duration(c.IdleEndMS) * time.Millisecond)
	}
	for i, r := range rpcs {
		run := runs[i]
		if !r.started {
			r.cancel()
			run.Status = "none"
			continue
		}
		if !r.closedReqs {
			close(r.st.reqs)
		}
		limit := watchdog
		if hung {
			limit = 200 * time.Millisecond
		}
		returned := false
		if r.req != nil && r.req.Mode == 2 && !hung {
			// a POLL ends by EOF
			select {
			case <-r.done:
				returned = true
			case <-time.After(limit):
			}
		}
		r.cancel()
		if !returned {
			select {
			case <-r.done:
				returned = true
			case <-time.After(limit):
			}
		}
		switch {
		case hung || !returned:
			run.Status = "hang"
		case r.panicked:
			run.Status = "panic"
		default:
			run.Status = statusName(r.err)
		}
	}
	limit := watchdog
	if hung {
		limit = 300 * time.Millisecond
	}
	if !drainServer(limit) {
		for _, run := range runs {
			if run.Status != "none" {
				run.Status = "hang"
			}
		}
		for _, id := range goroutineStates().ids {
			ignoredG[id] = true
		}
		hung = true
	}
	if faults {
		rpcs[0].st.mu.Lock()
		c.FaultHit, c.RecvHit = rpcs[0].st.failed, rpcs[0].st.recvFailed
		c.FailK = rpcs[0].st.failK
		rpcs[0].st.mu.Unlock()
	}
	if !hung {
		final := dumpCache(ca, c.Targets)
		for i := range runs {
			runs[i].Final = final
		}
	}
	if polluted {
		for _, run := range runs {
			if n := len(run.Obs); n > 0 {
				run.Obs[n-1].CRes = "panic"
			}
		}
	}
	for i, r := range rpcs {
		// anything sent after the last step belongs to no group: it is an extra response
		if extra := r.st.take(); len(extra) > 0 && len(runs[i].Obs) > 0 {
			n := len(runs[i].Obs) - 1
			runs[i].Obs[n].Group = append(runs[i].Obs[n].Group, extra...)
		}
	}
	return runs
}

// ---------------------------------------------------------------------------
// Gallina

type defs struct {
	idx   map[string]int
	order []string
	pfx   string
	typ   string
}

func newDefs(pfx, typ string) *defs { return &defs{idx: map[string]int{}, pfx: pfx, typ: typ} }

func (d *defs) ref(term string) string {
	i, ok := d.idx[term]
	if !ok {
		i = len(d.order)
		d.idx[term] = i
		d.order = append(d.order, term)
	}
	return fmt.Sprintf("%s%d", d.pfx, i)
}

func (d *defs) decls(b *strings.Builder) {
	for i, t := range d.order {
		fmt.Fprintf(b, "Definition %s%d : %s := %s.\n", d.pfx, i, d.typ, t)
	}
}

type caseFile struct {
	names *vh.Names
	paths *defs
	notis *defs
	terms []string
	descs []json.RawMessage
	view  string
}

func newCaseFile() *caseFile {
	return &caseFile{names: vh.NewNames(), paths: newDefs("g", "gpath"), notis: newDefs("n", "noti")}
}

func (f *caseFile) gpath(g GPath) string {
	el := make([]string, len(g.Elems))
	for i, e := range g.Elems {
		ks := make([]string, len(e.Keys))
		for j, kv := range e.Keys {
			ks[j] = fmt.Sprintf("(%s, %s)", f.names.Ref(kv[0]), f.names.Ref(kv[1]))
		}
		el[i] = fmt.Sprintf("(%s, %s)", f.names.Ref(e.Name), vh.List(ks))
	}
	return f.paths.ref(fmt.Sprintf("GP %s %s %s", f.names.Ref(g.Target), f.names.Ref(g.Origin), vh.List(el)))
}

func (f *caseFile) optPath(g *GPath) string {
	if g == nil {
		return "None"
	}
	return "(Some " + f.gpath(*g) + ")"
}

func (f *caseFile) noti(n *Noti) string {
	us := make([]string, len(n.Upds))
	for i, u := range n.Upds {
		us[i] = fmt.Sprintf("(%s, %s)", f.gpath(u.Path), vh.Z(u.Val))
	}
	ds := make([]string, len(n.Dels))
	for i, d := range n.Dels {
		ds[i] = f.gpath(d)
	}
	return f.notis.ref(fmt.Sprintf("NT %s %s %s %s %s", vh.Z(n.TS), f.gpath(n.Prefix), vh.List(us), vh.List(ds), vh.Bool(n.Atomic)))
}

func (f *caseFile) step(s Step) string {
	switch s.K {
	case "update":
		return "SCache (CUpdate " + f.noti(s.N) + ")"
	case "remove":
		return fmt.Sprintf("SCache (CRemove %s %s)", f.names.Ref(s.Target), vh.Z(s.Now))
	case "gate":
		return "SPoll" // a step of the client side only: nothing happens in a streaming responder
	case "aclset":
		rows := make([]string, len(s.Rows))
		for i, r := range s.Rows {
			rows[i] = fmt.Sprintf("(%s, %s, %s)", f.names.Ref(r.User), f.names.Ref(r.Target), vh.Bool(r.Allow))
		}
		return "SAcl " + vh.List(rows)
	case "addtarget":
		return "SCache (CAdd " + f.names.Ref(s.Target) + ")"
	case "churn":
		return "SCache (CChurn " + f.names.Ref(s.Target) + ")"
	case "sub":
		if f.view == "b" {
			return "SPoll" // the other caller's Subscribe: nothing happens for this one
		}
		return "SSub"
	case "sub2":
		return "SSub" // view b: this caller's Subscribe; view a: ignored (already subscribed)
	case "poll":
		return "SPoll"
	}
	panic("step kind " + s.K)
}

func (f *caseFile) dump(d []DEntry) string {
	el := make([]string, len(d))
	for i, e := range d {
		el[i] = fmt.Sprintf("(%s, %s, %s)", f.names.Ref(e.Target), f.names.Path(e.Path), f.noti(&e.N))
	}
	return vh.List(el)
}

func (f *caseFile) obs(obs []OObs) string {
	el := make([]string, len(obs))
	for i, o := range obs {
		g := make([]string, len(o.Group))
		for j, r := range o.Group {
			if r.Sync {
				g[j] = "OSync"
			} else {
				g[j] = fmt.Sprintf("OUpd %s %d%%N", f.noti(r.N), r.Dup)
			}
		}
		cr := map[string]string{"ok": "COk", "err": "CErr", "panic": "CPanic"}[o.CRes]
		d := "None"
		if o.HasDump {
			d = "(Some " + f.dump(o.Dump) + ")"
		}
		el[i] = fmt.Sprintf("OB %s %s %s %d%%N", vh.List(g), cr, d, o.Burst)
	}
	return vh.List(el)
}

var statusTerm = map[string]string{"none": "SNone", "ok": "SOK", "invalid": "SInvalidArgument", "notfound": "SNotFound",
	"denied": "SPermissionDenied", "unauthenticated": "SUnauthenticated", "unknown": "SUnknown",
	"canceled": "SCanceled", "other": "SOther", "hang": "SHang", "panic": "SPanic"}

func (f *caseFile) caseTerm(c *Case) string {
	ts := make([]string, len(c.Targets))
	for i, t := range c.Targets {
		ts[i] = f.names.Ref(t)
	}
	acl := "None"
	if c.HasACL {
		rows := make([]string, len(c.ACL))
		for i, r := range c.ACL {
			rows[i] = fmt.Sprintf("(%s, %s, %s)", f.names.Ref(r.User), f.names.Ref(r.Target), vh.Bool(r.Allow))
		}
		acl = "(Some " + vh.List(rows) + ")"
	}
	f.view = c.View
	cuser, creq := c.User, c.Req
	if c.View == "b" {
		cuser, creq = c.User2, c.Req2
	}
	if c.HasACL && c.ACLDown {
		cuser = nil // no per-call ACL can be made for anybody
	}
	user := "None"
	if cuser != nil {
		user = "(Some " + f.names.Ref(*cuser) + ")"
	}
	req := "None"
	if creq != nil {
		subs := make([]string, len(creq.Subs))
		for i, s := range creq.Subs {
			subs[i] = f.optPath(s)
		}
		req = fmt.Sprintf("(Some (RQ %s %s %s %s %s))", vh.Bool(creq.HasSub), f.optPath(creq.Prefix), vh.List(subs),
			vh.Z(int64(creq.Mode)), vh.Bool(creq.UpdatesOnly))
	}
	ops := make([]string, len(c.Ops))
	for i, s := range c.Ops {
		ops[i] = f.step(s)
	}
	obs2, st2 := "[]", "SNone"
	if c.R2 != nil {
		obs2, st2 = f.obs(c.R2.Obs), statusTerm[c.R2.Status]
	}
	fault := 0
	if c.FaultHit && c.View != "b" {
		fault = c.FailK
	}
	return fmt.Sprintf("CS %s %s %s %s %s %s %s %s %s %s %d%%N %s", vh.List(ts), acl, user, req, vh.List(ops),
		f.obs(c.R1.Obs), statusTerm[c.R1.Status], f.dump(c.R1.Final), obs2, st2, fault, vh.Bool(c.RecvHit && c.View != "b"))
}

func (f *caseFile) add(c *Case) {
	f.terms = append(f.terms, f.caseTerm(c))
	b, err := json.Marshal(c)
	if err != nil {
		panic(err)
	}
	f.descs = append(f.descs, b)
}

func (f *caseFile) write(dir string, k int, require string) error {
	var b strings.Builder
	fmt.Fprintf(&b, "From Gnmi Require Import Base.Prelude CTree.CTreeModel Subscribe.SubModel Subscribe.C05Check %s.\nOpen Scope Z_scope.\n", require)
	b.WriteString(f.names.Decls())
	f.paths.decls(&b)
	f.notis.decls(&b)
	refs := make([]string, len(f.terms))
	for i, t := range f.terms {
		fmt.Fprintf(&b, "Definition c%d : case := %s.\n", i, t)
		refs[i] = fmt.Sprintf("c%d", i)
	}
	fmt.Fprintf(&b, "Definition cases : list case := %s.\n", vh.List(refs))
	fmt.Fprintf(&b, "Definition R := Eval vm_compute in %s.check_all cases.\nPrint R.\n", require)
	if err := os.WriteFile(filepath.Join(dir, fmt.Sprintf("cases_%d.v", k)), []byte(b.String()), 0o644); err != nil {
		return err
	}
	js, err := json.Marshal(f.descs)
	if err != nil {
		return err
	}
	return os.WriteFile(filepath.Join(dir, fmt.Sprintf("cases_%d.json", k)), js, 0o644)
}

// ---------------------------------------------------------------------------
// emitter

type emitter struct {
	dir     string
	shard   int
	cf      *caseFile
	meta    *vh.Meta
	limit   int
	require string
	noise   *vh.Rand // decorates generated cases (not corpus / replay)
	twice   bool     // also run every case against a server without ACL (C07)
	nontriv func(*Case) bool
}

func (e *emitter) add(family string, c Case) {
	c.Family = family
	if e.noise != nil && family != "corpus" && family != "replay" {
		c = cloneCase(c) // generators may share request objects between cases
		addNoise(e.noise, &c)
	}
	runs1 := runScript(&c, true, true)
	var runs2 []*Run
	if e.twice {
		runs2 = runScript(&c, false, false)
	}
	if len(runs1) == 2 {
		// two overlapping calls: one entry per caller, each judged on its own
		for i, v := range []string{"a", "b"} {
			if c.View != "" && c.View != v {
				continue
			}
			cv := c
			cv.View = v
			cv.R1 = runs1[i]
			if runs2 != nil {
				cv.R2 = runs2[i]
			}
			e.addOne(family, cv)
		}
		return
	}
	c.R1 = runs1[0]
	c.R2 = nil
	if runs2 != nil {
		c.R2 = runs2[0]
	}
	e.addOne(family, c)
}

func cloneCase(c Case) Case {
	b, err := json.Marshal(c)
	if err != nil {
		panic(err)
	}
	var out Case
	if err := json.Unmarshal(b, &out); err != nil {
		panic(err)
	}
	return out
}

func (e *emitter) addOne(family string, c Case) {
	e.cf.add(&c)
	in := c
	in.R1, in.R2 = nil, nil
	canon, _ := json.Marshal(in)
	e.meta.Hist("status:" + c.R1.Status)
	if c.Req != nil {
		e.meta.Hist(fmt.Sprintf("mode:%d", c.Req.Mode))
		if c.Req.Prefix != nil && c.Req.Prefix.Target == "*" {
			e.meta.Hist("target:*")
		}
		e.meta.Hist(fmt.Sprintf("subs:%d", len(c.Req.Subs)))
	}
	nresp, npoll := 0, 0
	for i, o := range c.R1.Obs {
		nresp += len(o.Group)
		if c.Ops[i].K == "poll" {
			npoll++
		}
		if o.CRes != "ok" {
			e.meta.Hist("cache-op:" + o.CRes)
		}
	}
	e.meta.Hist(fmt.Sprintf("polls:%d", npoll))
	switch {
	case nresp == 0:
		e.meta.Hist("responses:0")
	case nresp == 1:
		e.meta.Hist("responses:1")
	case nresp < 4:
		e.meta.Hist("responses:2-3")
	case nresp < 8:
		e.meta.Hist("responses:4-7")
	default:
		e.meta.Hist("responses:8+")
	}
	e.meta.Count(family, string(canon), e.nontriv(&c), map[string]interface{}{"family": family, "req": c.Req, "ops": len(c.Ops), "status": c.R1.Status, "responses": nresp})
	if len(e.cf.terms) >= e.limit {
		e.flush()
	}
}

func (e *emitter) flush() {
	if len(e.cf.terms) == 0 {
		return
	}
	if err := e.cf.write(e.dir, e.shard, e.require); err != nil {
		die("write: %v", err)
	}
	e.shard++
	e.cf = newCaseFile()
}

func readCases(file string) ([]Case, error) {
	b, err := os.ReadFile(file)
	if err != nil {
		return nil, err
	}
	var cs []Case
	if err := json.Unmarshal(b, &cs); err != nil {
		var one Case
		if err2 := json.Unmarshal(b, &one); err2 != nil {
			return nil, err
		}
		cs = []Case{one}
	}
	return cs, nil
}

var realStderr = os.Stderr

// quietLogs discards the glog output of the packages under test (nothing is
// written under /tmp).
func quietLogs() {
	installHooks()
	flag.Set("logtostderr", "true")
	flag.Set("stderrthreshold", "FATAL")
	if devnull, err := os.OpenFile(os.DevNull, os.O_WRONLY, 0); err == nil {
		os.Stderr = devnull
	}
}

func die(format string, a ...interface{}) {
	os.Stderr = realStderr
	vh.Die(format, a...)
}

// ---------------------------------------------------------------------------
// shared pieces of the generators

func el(n string, kv ...string) Elem {
	e := Elem{Name: n}
	for i := 0; i+1 < len(kv); i += 2 {
		e.Keys = append(e.Keys, [2]string{kv[i], kv[i+1]})
	}
	return e
}

func strp(s string) *string { return &s }

// ---------------------------------------------------------------------------
// cache content generator (shared)

type gen struct {
	r  *vh.Rand
	ts int64
	// origins the data of this case uses (weights none / oc / foo)
	ow [3]int
}

func newGen(r *vh.Rand) *gen {
	g := &gen{r: r}
	switch r.Pick(4, 3, 3) {
	case 0:
		g.ow = [3]int{10, 0, 0}
	case 1:
		g.ow = [3]int{1, 8, 1}
	default:
		g.ow = [3]int{5, 4, 1}
	}
	return g
}

func (g *gen) nextTS() int64 {
	if g.ts > 0 && g.r.Chance(1, 40) {
		return g.ts // same timestamp again: the stale / "different value at same timestamp" branches
	}
	g.ts += 1 + int64(g.r.Intn(3))
	return g.ts
}

// leaf paths of a small prefix-free schema (keyed lists with one and two keys,
// the two-key list once with its keys given in reverse name order)
var schema = [][]Elem{
	{el("a"), el("b")}, {el("a"), el("c")}, {el("a"), el("a")},
	{el("b", "k", "1"), el("a")}, {el("b", "k", "1"), el("c")}, {el("b", "k", "2"), el("a")},
	{el("c", "x", "1", "y", "2"), el("b")}, {el("c", "y", "1", "x", "2"), el("b")},
	{el("b"), el("c"), el("a"), el("b")},
	// sibling names / key values one of which is a string prefix of the other
	{el("a"), el("bb")}, {el("b", "k", "10"), el("a")},
	// an empty key value, an empty element name, a name containing the separator,
	// a literal "*" as a stored name
	{el("b", "k", ""), el("a")}, {el(""), el("a")}, {el("a/b"), el("c")}, {el("c"), el("*")},
}

// containers stored as one atomic leaf
var containers = [][]Elem{{el("d")}, {el("e"), el("a")}, {el("e"), el("b", "k", "1")}}

var dataElems = []Elem{el("a"), el("b"), el("c"), el("b", "k", "1"), el("b", "k", "2"), el("c", "x", "1", "y", "2"), el("d")}
var queryElems = []Elem{el("a"), el("b"), el("c"), el("*"), el("b", "k", "1"), el("b", "k", "*"), el("c", "x", "1", "y", "2"), el("c", "x", "*", "y", "2"), el("*", "k", "2"), el("d"), el("e")}

func (g *gen) origin(wNone, wOc, wFoo int) string {
	return []string{"", "oc", "foo"}[g.r.Pick(wNone, wOc, wFoo)]
}

func (g *gen) dataOrigin() string { return g.origin(g.ow[0], g.ow[1], g.ow[2]) }

func (g *gen) dataPath(min, max int) []Elem {
	n := min + g.r.Intn(max-min+1)
	out := make([]Elem, n)
	for i := range out {
		out[i] = dataElems[g.r.Pick(6, 5, 4, 3, 2, 2, 1)]
	}
	return out
}

// leafPath: a schema leaf (mostly), or an arbitrary path that may collide with
// stored leaves or branches
func (g *gen) leafPath() []Elem {
	if g.r.Chance(1, 12) {
		return g.dataPath(1, 3)
	}
	return append([]Elem{}, schema[g.r.Intn(len(schema))]...)
}

func (g *gen) randomQueryPath(max int) []Elem {
	n := g.r.Intn(max + 1)
	out := make([]Elem, n)
	for i := range out {
		out[i] = queryElems[g.r.Pick(6, 5, 3, 6, 2, 1, 1, 1, 1, 2, 1)]
	}
	return out
}

// queryPath: a stored name cut to any length with globs put at any position
// (element names, key values), or an arbitrary one
func (g *gen) queryPath(max int) []Elem {
	r := g.r
	if r.Chance(1, 4) {
		return g.randomQueryPath(max)
	}
	var base []Elem
	if r.Chance(1, 6) {
		base = append([]Elem{}, containers[r.Intn(len(containers))]...)
	} else {
		base = append([]Elem{}, schema[r.Intn(len(schema))]...)
	}
	n := r.Pick(1, 2, 4, 3, 2)
	if n > len(base) {
		n = len(base)
	}
	if n > max {
		n = max
	}
	base = base[:n]
	for i := range base {
		switch r.Pick(6, 2, 1) {
		case 1:
			base[i] = el("*")
		case 2:
			if len(base[i].Keys) > 0 {
				ks := append([][2]string{}, base[i].Keys...)
				ks[r.Intn(len(ks))][1] = "*"
				base[i] = Elem{Name: base[i].Name, Keys: ks}
			} else {
				base[i] = el("*")
			}
		}
	}
	if r.Chance(1, 10) {
		base = append(base, el("*"))
	}
	return base
}

func samePath(a, b []Elem) bool { return fmt.Sprint(a) == fmt.Sprint(b) }

// split moves the first k elements of a path into the prefix
func (g *gen) split(n *Noti, p []Elem) []Elem {
	if len(p) > 1 && len(n.Prefix.Elems) == 0 && g.r.Chance(1, 3) {
		k := 1 + g.r.Intn(len(p)-1)
		n.Prefix.Elems = p[:k]
		return p[k:]
	}
	return p
}

// dataNoti makes one notification for target t: a single update, several
// updates (and deletes), an atomic container, or a delete.
func (g *gen) dataNoti(t string, pathOrigins bool) *Noti {
	r := g.r
	n := &Noti{TS: g.nextTS(), Prefix: GPath{Target: t, Origin: g.dataOrigin()}}
	val := func() int64 { return int64(r.Intn(4)) }
	switch r.Pick(52, 15, 13, 20) {
	case 0:
		p := g.split(n, g.leafPath())
		u := Upd{Path: GPath{Elems: p}, Val: val()}
		if pathOrigins && n.Prefix.Origin == "" && len(n.Prefix.Elems) == 0 && r.Chance(1, 4) {
			u.Path.Origin = g.origin(0, 2, 1)
		}
		if r.Chance(1, 25) {
			u.Path.Target = "t9" // a target on an update path is ignored by the index
		}
		if r.Chance(1, 100) {
			// empty index path: rejected by the cache
			n.Prefix.Origin, n.Prefix.Elems = "", nil
			u.Path = GPath{}
		}
		n.Upds = []Upd{u}
	case 1:
		// several leaves below one prefix element
		first := g.leafPath()
		n.Prefix.Elems = first[:1]
		k := 2 + r.Intn(2)
		for tries := 0; len(n.Upds) < k && tries < 20; tries++ {
			p := g.leafPath()
			if !samePath(p[:1], first[:1]) || len(p) < 2 {
				continue
			}
			dupl := false
			for _, o := range n.Upds {
				if samePath(o.Path.Elems, p[1:]) {
					dupl = true
				}
			}
			if !dupl {
				n.Upds = append(n.Upds, Upd{Path: GPath{Elems: p[1:]}, Val: val()})
			}
		}
		if len(n.Upds) == 0 {
			n.Upds = []Upd{{Path: GPath{Elems: first[1:]}, Val: val()}}
		}
		if r.Chance(1, 3) {
			n.Dels = []GPath{{Elems: g.leafPath()[1:]}}
		}
	case 2:
		n.Atomic = true
		n.Prefix.Elems = append([]Elem{}, containers[r.Intn(len(containers))]...)
		k := 1 + r.Intn(3)
		for i := 0; i < k; i++ {
			n.Upds = append(n.Upds, Upd{Path: GPath{Elems: g.dataPath(1, 2)}, Val: val()})
		}
	case 3:
		var d []Elem
		switch r.Pick(5, 2, 1) {
		case 0:
			d = g.leafPath()
			d = d[:1+r.Intn(len(d))]
		case 1:
			d = append([]Elem{}, containers[r.Intn(len(containers))]...)
		default:
			d = g.dataPath(0, 2)
		}
		for i := range d {
			if r.Chance(1, 5) {
				d[i] = el("*")
			}
		}
		d = g.split(n, d)
		if len(d) == 0 && len(n.Prefix.Elems) == 0 && n.Prefix.Origin == "" && r.Chance(1, 2) {
			d = []Elem{el("*")} // otherwise: the empty index path, which deletes the whole target's data
		}
		n.Dels = []GPath{{Elems: d}}
	}
	return n
}

func (g *gen) cacheStep(targets []string, pathOrigins bool, allowRemove bool) Step {
	t := targets[g.r.Intn(len(targets))]
	if allowRemove && g.r.Chance(1, 25) {
		g.ts++
		return Step{K: "remove", Target: t, Now: g.ts}
	}
	if g.r.Chance(1, 40) {
		return Step{K: "addtarget", Target: t} // Cache.Add of an existing target: a fresh, empty one
	}
	if g.r.Chance(1, 60) {
		t = "tx" // unknown target: GnmiUpdate returns an error
	}
	return Step{K: "update", N: g.dataNoti(t, pathOrigins)}
}

// subOrigins chooses the origin of the request prefix and of one subscription
// path so that it mostly agrees with the data of the case.
func (g *gen) requestOrigin() string {
	if g.r.Chance(1, 8) {
		return g.origin(1, 1, 1)
	}
	return g.dataOrigin()
}

// burstWrite makes a single-update (or, rarely, single-delete) notification
// with a fresh value for a burst (no remove, no multi-update: the stored form
// of the notification is the notification itself).
func (g *gen) burstWrite(targets []string, burst int) Step {
	r := g.r
	g.ts += 1 + int64(r.Intn(2))
	n := &Noti{TS: g.ts, Prefix: GPath{Target: targets[r.Intn(len(targets))], Origin: g.dataOrigin()}}
	if r.Chance(1, 6) {
		d := g.leafPath()
		n.Dels = []GPath{{Elems: g.split(n, d[:1+r.Intn(len(d))])}}
	} else {
		n.Upds = []Upd{{Path: GPath{Elems: g.split(n, g.leafPath())}, Val: 100 + g.ts}}
	}
	return Step{K: "update", N: n, Burst: burst, Gate: r.Intn(6)}
}

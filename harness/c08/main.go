// C08 harness: a stalled subscriber cannot stall the collector or other
// subscribers.  See coq/Stream/C08Check.v for the scenario and the case format.
package main

import (
	"context"
	"encoding/json"
	"errors"
	"flag"
	"fmt"
	"os"
	"sort"
	"strings"
	"sync"
	"sync/atomic"
	"time"

	"github.com/openconfig/gnmi/ctree"
	"github.com/openconfig/gnmi/subscribe"
	"github.com/openconfig/gnmi/zz_verif/vh"
)

// waitParked waits until every live sender is parked: in Next's select, or
// inside a blocked Send (also a select).  Exact, from goroutine states; a
// 5 s bound makes a hang an observation.
func waitParked(e *engine, live func(i int) bool, needSync bool) bool {
	deadline := time.Now().Add(20 * time.Second)
	for time.Now().Before(deadline) {
		ok := true
		if needSync {
			for i, st := range e.streams {
				if !live(i) {
					continue
				}
				has := false
				for _, r := range st.snapshot() {
					if r.K == "sync" {
						has = true
					}
				}
				if !has {
					ok = false
				}
			}
		}
		if ok {
			states := goStates()
			for i, st := range e.streams {
				if !live(i) {
					continue
				}
				st.mu.Lock()
				n := 0
				for g := range st.goids {
					s, alive := states[g]
					if !alive {
						continue
					}
					n++
					if s != "select" && s != "chan receive" {
						ok = false
					}
				}
				st.mu.Unlock()
				if n < 2 {
					ok = false
				}
			}
		}
		if ok {
			return true
		}
		time.Sleep(100 * time.Microsecond)
	}
	return false
}

// aclTable hides some targets from every RPC.
type aclTable struct{ hidden map[string]bool }

func (a aclTable) Check(target string) bool { return !a.hidden[target] }

type aclACL struct{ t aclTable }

func (a aclACL) NewRPCACL(context.Context) (subscribe.RPCACL, error) { return a.t, nil }
func (a aclACL) Check(string, string) bool                           { return true }

// evRec is one atomic step of the run, in the order it happened.
type evRec struct {
	kind string // write feed unlock regall walk sync deq read sent timeout
	i    int    // subscriber
	op   Op
	opi  int // index among the phase-2 writes (-1: pre-population)
	resp Resp
	dup  int
	q    int
	stat bool   // deq: the (duplicates, queue length) pair was reported
	res  string // write: result class
}

type stallState struct {
	blocked   bool
	forever   bool
	since     int // number of phase-2 writes completed when the block began
	remaining int
	release   chan struct{}
}

func runStall(cs *Case) (*Obs, []evRec) {
	n := len(cs.Subs)
	obs := &Obs{Ended: make([]bool, n), Deq: make([][][2]int, n), Coal: make([]int, n), Returned: true, Stalled: make([]int, n)}
	var e *engine
	var lmu sync.Mutex
	var log []evRec
	add := func(r evRec) int {
		lmu.Lock()
		log = append(log, r)
		k := len(log) - 1
		lmu.Unlock()
		return k
	}
	var phase2 atomic.Bool
	subOf := func() int {
		g := curGoid()
		for i, st := range e.streams {
			st.mu.Lock()
			mine := st.goids[g]
			st.mu.Unlock()
			if mine {
				return i
			}
		}
		return -1
	}
	// the (duplicates, queue length) pair of the dequeue that precedes a Send
	pending := make([]*[2]int, n)
	timeout := time.Duration(cs.TimeoutMs) * time.Millisecond
	var aclOpt subscribe.Option
	quietFor := time.Duration(0)
	if len(cs.Hidden) > 0 {
		h := map[string]bool{}
		for _, t := range cs.Hidden {
			h[t] = true
		}
		aclOpt = subscribe.WithACL(aclACL{aclTable{h}})
		quietFor = 3*timeout + 20*time.Millisecond
	}
	e = newEngine(cs, subscribe.WithTimeout(timeout), subscribe.WithStats(), aclOpt,
		subscribe.WithClientStatsTest(func(dup, q int64) {
			// only phase 2 is a known schedule: while a subscription starts, its walk
			// and its sender run side by side and Len() is read after Next returned
			if !phase2.Load() {
				return
			}
			if i := subOf(); i >= 0 {
				lmu.Lock()
				pending[i] = &[2]int{int(dup), int(q)}
				obs.Deq[i] = append(obs.Deq[i], [2]int{int(dup), int(q)})
				lmu.Unlock()
			}
		}))
	e.feedHook = func(*ctree.Leaf) { add(evRec{kind: "feed"}) }
	nres := 0
	apply := func(o Op, opi int) string {
		k := add(evRec{kind: "write", op: o, opi: opi})
		r := e.apply(o)
		lmu.Lock()
		log[k].res = r
		lmu.Unlock()
		add(evRec{kind: "unlock"})
		return r
	}
	for k := 0; k < cs.Bulk; k++ {
		e.apply(Op{W: -1, K: "upd", P: []string{"t1", "a", fmt.Sprintf("n%d", k)}, V: int64(k % 7), TS: 1})
	}
	for _, o := range cs.Ops {
		if o.W == -1 {
			apply(o, -1)
		}
	}
	var bmu sync.Mutex
	stalls := make([]*stallState, n)
	ordinal := make([]int, n)
	written := 0
	done := make([]chan struct{}, n)
	started := make([]bool, n)
	live := func(i int) bool {
		if !started[i] {
			return false
		}
		select {
		case <-done[i]:
			return false
		default:
			return true
		}
	}
	for i, sc := range cs.Subs {
		i := i
		st := newStream(i, sc)
		stalls[i] = &stallState{}
		st.onSend = func(s *memStream, r Resp) error {
			lmu.Lock()
			pd := pending[i]
			pending[i] = nil
			lmu.Unlock()
			if pd != nil {
				add(evRec{kind: "deq", i: i, dup: pd[0], q: pd[1], stat: true})
			} else {
				add(evRec{kind: "deq", i: i})
			}
			add(evRec{kind: "read", i: i, resp: r})
			if cs.Bulk > 0 && cs.WalkStall == i {
				// stalled during (or right after) its initial walk, to the end of the run
				bmu.Lock()
				stalls[i].blocked, stalls[i].forever = true, false
				obs.Stalled[i] = 3
				bmu.Unlock()
				<-s.ctx.Done()
				return s.ctx.Err()
			}
			if !phase2.Load() {
				return nil
			}
			bmu.Lock()
			ordinal[i]++
			var blk *Block
			if i < len(cs.Plan) {
				for k := range cs.Plan[i] {
					if cs.Plan[i][k].At == ordinal[i] {
						blk = &cs.Plan[i][k]
					}
				}
			}
			if blk == nil {
				bmu.Unlock()
				return nil
			}
			if blk.Hold < 0 {
				// the transport fails: Send returns an error, the RPC must end with it
				obs.Stalled[i] = 2
				bmu.Unlock()
				add(evRec{kind: "cancel", i: i})
				return errors.New("transport is closing")
			}
			ss := stalls[i]
			ss.blocked, ss.forever, ss.since, ss.remaining = true, blk.Hold == 0, written, blk.Hold
			ss.release = make(chan struct{})
			rel := ss.release
			if ss.forever {
				obs.Stalled[i] = 2
			}
			bmu.Unlock()
			select {
			case <-rel:
				return nil
			case <-s.ctx.Done():
				return s.ctx.Err()
			}
		}
		st.afterSend = func(*memStream) { add(evRec{kind: "sent", i: i}) }
		e.streams = append(e.streams, st)
		done[i] = make(chan struct{})
	}
	var emu sync.Mutex
	startSub := func(i int) {
		started[i] = true
		add(evRec{kind: "regall", i: i})
		if !cs.Subs[i].UO {
			add(evRec{kind: "walk", i: i})
			add(evRec{kind: "sync", i: i})
		}
		go func() {
			defer close(done[i])
			defer func() {
				if p := recover(); p != nil {
					emu.Lock()
					obs.Bad = fmt.Sprintf("subscriber panic: %v", p)
					emu.Unlock()
				}
			}()
			err := e.srv.Subscribe(e.streams[i])
			emu.Lock()
			obs.Ended[i] = err != nil && e.streams[i].ctx.Err() == nil
			emu.Unlock()
		}()
		if !waitParked(e, func(j int) bool { return j == i }, !(cs.Bulk > 0 && cs.WalkStall == i)) {
			obs.Bad = "subscriber did not reach its sync"
		}
		time.Sleep(quietFor) // after the sync marker (sent without the timer) nothing may be armed
	}
	nearly := n
	if cs.Late {
		nearly = n - 1
	}
	for i := 0; i < nearly; i++ {
		startSub(i)
	}
	anyBlocked := func() bool {
		bmu.Lock()
		defer bmu.Unlock()
		for _, ss := range stalls {
			if ss.blocked {
				return true
			}
		}
		return false
	}
	// releases due after a write (or, at the end, all transient ones); true if any
	releaseDue := func(all bool) bool {
		bmu.Lock()
		any := false
		for si, ss := range stalls {
			if !ss.blocked || ss.forever || (cs.Bulk > 0 && cs.WalkStall == si) {
				continue
			}
			if !all {
				if ss.since >= written {
					continue // began during this very write: counts from the next one
				}
				ss.remaining--
				if ss.remaining > 0 {
					continue
				}
			}
			ss.blocked = false
			close(ss.release)
			any = true
		}
		bmu.Unlock()
		return any
	}
	timedOut := make([]bool, n)
	cancelled := make([]bool, n)
	phase2.Store(true)
	for _, o := range cs.Ops {
		if o.W < 0 || obs.Bad != "" {
			continue
		}
		if anyBlocked() {
			obs.WhileBlock++
		}
		res := make(chan string, 1)
		opi := nres
		go func() {
			defer func() {
				if p := recover(); p != nil {
					res <- "panic"
				}
			}()
			res <- apply(o, opi)
		}()
		select {
		case r := <-res:
			if r == "panic" {
				obs.Bad = "writer panic"
			}
			obs.Results = append(obs.Results, r)
		case <-time.After(5 * time.Second):
			obs.Returned = false
			obs.Results = append(obs.Results, "err")
			obs.Bad = "a write did not return within 5 s"
		}
		nres++
		if obs.Bad == "" && !waitParked(e, live, false) {
			obs.Bad = "senders did not settle after a write"
		}
		for _, t := range cs.Hidden {
			if t == o.P[0] {
				// the ACL-denied response was dropped: no send is in progress, so no timer
				// may be running during a quiet period of several timeouts
				time.Sleep(quietFor)
			}
		}
		bmu.Lock()
		written++
		bmu.Unlock()
		if obs.Bad == "" && releaseDue(false) && !waitParked(e, live, false) {
			obs.Bad = "senders did not settle after a release"
		}
		// a Send that never returns: wait for the timer to end that subscription NOW, so that
		// the remaining writes happen after its paths left the match trie
		for i := range cs.Subs {
			bmu.Lock()
			b := stalls[i].blocked && stalls[i].forever && !timedOut[i]
			bmu.Unlock()
			if !b || obs.Bad != "" {
				continue
			}
			timedOut[i] = true
			select {
			case <-done[i]:
				add(evRec{kind: "timeout", i: i})
			case <-time.After(5 * time.Second):
				obs.Bad = "a subscription whose Send stays blocked did not end within 5 s (timeout 100 ms)"
			}
		}
		// a client that goes away
		if cs.CancelSub >= 0 && cs.CancelSub < nearly && nres == cs.CancelAfter && obs.Bad == "" && live(cs.CancelSub) {
			i := cs.CancelSub
			bmu.Lock()
			busy := stalls[i].blocked
			bmu.Unlock()
			if !busy {
				add(evRec{kind: "cancel", i: i})
				cancelled[i] = true
				e.streams[i].cancel()
				select {
				case <-done[i]:
				case <-time.After(5 * time.Second):
					obs.Bad = "Subscribe did not return after its client went away"
				}
			}
		}
	}
	// the end: a Send blocked for ever ends its subscription with an error once the timer
	// fires; the other blocked Sends are released (a released sender may run into its next
	// planned block, transient or for ever), until nothing moves any more
	for k := 0; k < 50 && obs.Bad == ""; k++ {
		progressed := false
		for i := range cs.Subs {
			bmu.Lock()
			b := stalls[i].blocked && stalls[i].forever && !timedOut[i]
			bmu.Unlock()
			if !b {
				continue
			}
			timedOut[i] = true
			progressed = true
			select {
			case <-done[i]:
				add(evRec{kind: "timeout", i: i})
			case <-time.After(5 * time.Second):
				if obs.Bad == "" {
					obs.Bad = "a subscription whose Send stays blocked did not end within 5 s (timeout 100 ms)"
				}
			}
		}
		if obs.Bad == "" && releaseDue(true) {
			progressed = true
			if !waitParked(e, live, false) {
				obs.Bad = "senders did not settle after the stalls were released"
			}
		}
		if !progressed {
			break
		}
	}
	// a subscriber that starts now gets its snapshot straight from the cache
	phase2.Store(false)
	if cs.Late && obs.Bad == "" {
		startSub(n - 1)
	}
	for k, v := range e.srv.ClientStats() {
		for i := range cs.Subs {
			if strings.HasPrefix(k, fmt.Sprintf("127.0.0.1:%d:", 1000+i)) {
				obs.Coal[i] = int(v.CoalesceCount)
			}
		}
	}
	obs.Dump = e.dump()
	for _, st := range e.streams {
		obs.Streams = append(obs.Streams, st.snapshot())
	}
	emu.Lock()
	ended := append([]bool(nil), obs.Ended...)
	emu.Unlock()
	for i := range cs.Subs {
		select {
		case <-done[i]:
		default:
			ended[i] = false
		}
		if cancelled[i] {
			ended[i] = true
			obs.Stalled[i] = 2 // for K_P: this subscription is expected to have ended
		}
	}
	for _, st := range e.streams {
		st.cancel()
	}
	for i := range done {
		if !started[i] {
			continue
		}
		select {
		case <-done[i]:
		case <-time.After(5 * time.Second):
			obs.Bad = "Subscribe did not return after cancel"
		}
	}
	obs.Ended = ended
	lmu.Lock()
	out := append([]evRec(nil), log...)
	lmu.Unlock()
	if len(cs.Hidden) > 0 {
		out = nil // ACL-denied responses are not in the transition system: K_P only
	}
	if cs.Bulk > 0 {
		out = nil // thousands of leaves: judged by K_P only (a replay of the walk would take minutes)
	}
	return obs, out
}

// ---------------------------------------------------------------------------

type emitter struct {
	dir   string
	cf    *vh.CaseFile
	shard int
	meta  *vh.Meta
	limit int
	bad   int // cases with a hang / panic so far: after three the run stops generating (each costs 5 s)
}

func (e *emitter) flush() {
	if e.cf.Len() == 0 && e.shard > 0 {
		return
	}
	if err := e.cf.Write(e.dir, e.shard, "Stream.StreamLts Stream.C04Check Stream.C08Check", "C08Check.case", "C08Check.check_all"); err != nil {
		vh.Die("write cases: %v", err)
	}
	e.shard++
	e.cf = vh.NewCaseFile()
}

func natT(i int) string { return fmt.Sprintf("%d%%nat", i) }

func (e *emitter) path(p []string) string { return e.cf.Names.Path(p) }

func (e *emitter) paths(ps [][]string) string {
	out := make([]string, len(ps))
	for i, p := range ps {
		out[i] = e.path(p)
	}
	return vh.List(out)
}

func (e *emitter) respT(r Resp) string {
	switch r.K {
	case "upd":
		return fmt.Sprintf("RUpd %s %s %s %s", e.path(r.P), vh.Z(r.V), vh.Z(r.TS), natT(r.Dup))
	case "del":
		return fmt.Sprintf("RDel %s %s", e.path(r.P), vh.Z(r.TS))
	}
	return "RSync"
}

func (e *emitter) wopT(o Op) string {
	switch o.K {
	case "upd":
		return fmt.Sprintf("WUpd %s %s %s", e.path(o.P), vh.Z(o.V), vh.Z(o.TS))
	case "del":
		return fmt.Sprintf("WDel %s %s []", e.path(o.P), vh.Z(o.TS))
	}
	return fmt.Sprintf("WDelSub %s", e.path(o.P))
}

func wresT(s string) string {
	switch s {
	case "ok":
		return "WOk"
	case "stale":
		return "WStale"
	}
	return "WErr"
}

func firstSeen(rs []Resp) [][]string {
	seen := map[string]bool{}
	var out [][]string
	for _, r := range rs {
		if r.K == "upd" && !seen[pstr(r.P)] {
			seen[pstr(r.P)] = true
			out = append(out, r.P)
		}
	}
	return out
}

func (e *emitter) caseTerm(cs *Case, obs *Obs, log []evRec) string {
	var b strings.Builder
	b.WriteString("mkCase8 ")
	subs := make([]string, len(cs.Subs))
	for i, s := range cs.Subs {
		subs[i] = fmt.Sprintf("(%s, %s)", e.paths(s.Qs), vh.Bool(s.UO))
	}
	b.WriteString(vh.List(subs) + " ")
	stall := make([]string, len(cs.Subs))
	for i := range cs.Subs {
		k := 0
		if i < len(obs.Stalled) {
			k = obs.Stalled[i]
		}
		stall[i] = natT(k)
	}
	b.WriteString(vh.List(stall) + " ")
	var pre, ops []string
	k := 0
	for _, o := range cs.Ops {
		if o.W == -1 {
			pre = append(pre, e.wopT(o))
		} else {
			r := "err"
			if k < len(obs.Results) {
				r = obs.Results[k]
			}
			k++
			ops = append(ops, fmt.Sprintf("(%s, %s)", e.wopT(o), wresT(r)))
		}
	}
	b.WriteString(vh.List(pre) + " " + vh.List(ops) + " ")
	bad := obs.Bad != ""
	streams := make([]string, len(cs.Subs))
	for i := range cs.Subs {
		var rs []Resp
		if i < len(obs.Streams) {
			rs = obs.Streams[i]
		}
		ts := make([]string, len(rs))
		for j, r := range rs {
			if r.K == "other" {
				bad = true
			}
			ts[j] = e.respT(r)
		}
		streams[i] = vh.List(ts)
	}
	var steps []string
	for _, ev := range log {
		var t string
		switch ev.kind {
		case "write":
			r := ev.res
			if r == "" {
				r = "err"
			}
			t = fmt.Sprintf("(CL (LWrite 0%%nat (%s)), OW %s)", e.wopT(ev.op), wresT(r))
		case "feed":
			t = "(CL (LFeed 0%nat), ONone)"
		case "unlock":
			t = "(CL (LUnlock 0%nat), ONone)"
		case "regall":
			t = fmt.Sprintf("(CRegAll %s, ONone)", natT(ev.i))
		case "walk":
			var rs []Resp
			if ev.i < len(obs.Streams) {
				rs = obs.Streams[ev.i]
			}
			t = fmt.Sprintf("(CWalk %s %s, ONone)", natT(ev.i), e.paths(firstSeen(rs)))
		case "sync":
			t = fmt.Sprintf("(CL (LSync %s), ONone)", natT(ev.i))
		case "deq":
			if ev.stat {
				t = fmt.Sprintf("(CL (LDeq %s), ODeq %s %s)", natT(ev.i), natT(ev.dup), natT(ev.q))
			} else {
				t = fmt.Sprintf("(CL (LDeq %s), ONone)", natT(ev.i))
			}
		case "read":
			if ev.resp.K == "other" {
				bad = true
			}
			t = fmt.Sprintf("(CL (LRead %s), OResp (%s))", natT(ev.i), e.respT(ev.resp))
		case "sent":
			t = fmt.Sprintf("(CL (LSent %s), ONone)", natT(ev.i))
		case "timeout":
			t = fmt.Sprintf("(CL (LTimeout %s), ONone)", natT(ev.i))
		case "cancel":
			t = fmt.Sprintf("(CL (LCancel %s), ONone)", natT(ev.i))
		}
		steps = append(steps, t)
	}
	b.WriteString(vh.List(steps) + " " + vh.List(streams) + " ")
	ended := make([]string, len(obs.Ended))
	for i, x := range obs.Ended {
		ended[i] = vh.Bool(x)
	}
	b.WriteString(vh.List(ended) + " ")
	var dump []string
	for _, l := range obs.Dump {
		if cs.Bulk > 0 {
			// thousands of leaves: only those a subscriber that is judged for convergence
			// could be told about (compatible with one of its paths) are handed to Coq
			keep := false
			for i, sc := range cs.Subs {
				if i < len(obs.Stalled) && obs.Stalled[i] == 3 {
					continue
				}
				for _, q := range sc.Qs {
					if compat(q, l.P) {
						keep = true
					}
				}
			}
			if !keep {
				continue
			}
		}
		dump = append(dump, fmt.Sprintf("(%s, (%s, %s))", e.path(l.P), vh.Z(l.V), vh.Z(l.TS)))
	}
	b.WriteString(vh.List(dump) + " ")
	deq := make([]string, len(cs.Subs))
	for i := range cs.Subs {
		var ps []string
		if i < len(obs.Deq) {
			for _, d := range obs.Deq[i] {
				ps = append(ps, fmt.Sprintf("(%s, %s)", natT(d[0]), natT(d[1])))
			}
		}
		deq[i] = vh.List(ps)
	}
	b.WriteString(vh.List(deq) + " ")
	coal := make([]string, len(cs.Subs))
	for i := range cs.Subs {
		c := 0
		if i < len(obs.Coal) {
			c = obs.Coal[i]
		}
		coal[i] = natT(c)
	}
	b.WriteString(vh.List(coal) + " ")
	b.WriteString(vh.Bool(obs.Returned) + " " + vh.Bool(bad) + " " + vh.Bool(cs.Late) + " " + e.path(cs.Hidden))
	return b.String()
}

func (e *emitter) run(cs *Case) {
	cs.Obs = nil
	obs, log := runStall(cs)
	// the case counts as observed only when every wait for the senders to park succeeded
	// (positive evidence from the goroutine states, bound 20 s); otherwise it is re-run, up
	// to two more times, and only a hang that reproduces is emitted (K_P tag 2 alone)
	for try := 0; try < 2 && obs.Bad != ""; try++ {
		e.meta.Hist("retried")
		obs, log = runStall(cs)
	}
	for _, ev := range log {
		obs.Log = append(obs.Log, strings.TrimSpace(fmt.Sprintf("%s %d %s %v", ev.kind, ev.i, ev.res, ev.resp)))
	}
	cs.Obs = obs
	e.cf.Add(e.caseTerm(cs, obs, log), cs)
	canon, _ := json.Marshal(struct {
		O []Op
		S []SubCfg
		T []int
		P [][]Block
	}{cs.Ops, cs.Subs, cs.Stall, cs.Plan})
	coalesced := false
	for _, rs := range obs.Streams {
		for _, r := range rs {
			if r.Dup > 0 {
				coalesced = true
			}
		}
	}
	e.meta.Count(cs.Family, string(canon), obs.WhileBlock > 0 && coalesced || obs.WhileBlock > 0 && cs.TimeoutMs < 1000, cs)
	e.meta.Hist(fmt.Sprintf("writes_while_blocked>0=%v", obs.WhileBlock > 0))
	for _, k := range cs.Stall {
		e.meta.Hist(fmt.Sprintf("stall:%d", k))
	}
	for _, o := range cs.Ops {
		e.meta.Hist("op:" + o.K)
	}
	if obs.Bad != "" {
		e.meta.Hist("bad")
		e.bad++
	}
	if e.cf.Len() >= e.limit {
		e.flush()
	}
}

// ---------------------------------------------------------------------------
// generator

var leafUniverse = [][]string{{"a", "x"}, {"a", "y"}, {"b"}, {"c", "z"}}
var queryShapes = [][]string{{}, {"a"}, {"a", "*"}, {"*"}, {"b"}, {"a", "x"}, {"*", "x"}}

func genCase(r *vh.Rand, dead bool) *Case {
	cs := &Case{Mode: "stall", ED: false, NW: 1, Seed: r.U64() % 1000000}
	if dead {
		cs.Family = "dead"
		cs.TimeoutMs = 100
	} else {
		cs.Family = "slow"
		cs.TimeoutMs = 60000
	}
	t := "t1"
	ts := int64(1)
	npre := r.Intn(3)
	for i := 0; i < npre; i++ {
		cs.Ops = append(cs.Ops, Op{W: -1, K: "upd", P: append([]string{t}, leafUniverse[r.Intn(len(leafUniverse))]...), V: int64(1 + r.Intn(3)), TS: ts})
		ts++
	}
	nleaves := 1 + r.Intn(3)
	nops := 3 + r.Intn(12)
	for i := 0; i < nops; i++ {
		p := append([]string{t}, leafUniverse[r.Intn(nleaves)]...)
		switch r.Pick(12, 1, 1) {
		case 0:
			ts++
			cs.Ops = append(cs.Ops, Op{W: 0, K: "upd", P: p, V: int64(1 + r.Intn(5)), TS: ts})
		case 1:
			// stale: older than anything written
			cs.Ops = append(cs.Ops, Op{W: 0, K: "upd", P: p, V: 9, TS: 0})
		case 2:
			ts++
			cs.Ops = append(cs.Ops, Op{W: 0, K: "del", P: p, TS: ts})
		}
	}
	nsub := 2 + r.Intn(2)
	stalled := r.Intn(nsub)
	for i := 0; i < nsub; i++ {
		q := append([]string{t}, queryShapes[r.Intn(len(queryShapes))]...)
		sc := SubCfg{Qs: [][]string{q}, UO: r.Chance(1, 6)}
		if r.Chance(1, 4) {
			q2 := append([]string{t}, queryShapes[r.Intn(len(queryShapes))]...)
			// the two paths select disjoint leaves: a leaf selected twice by one walk is
			// inserted twice, and the sender running beside the walk may or may not
			// dequeue it in between (C04's free-running family covers overlapping paths)
			overlap := false
			for _, l := range leafUniverse {
				p := append([]string{t}, l...)
				if covers(q, p) && covers(q2, p) {
					overlap = true
				}
			}
			if !overlap {
				sc.Qs = append(sc.Qs, q2)
			}
		}
		cs.Subs = append(cs.Subs, sc)
		k := 0
		if i == stalled || r.Chance(1, 5) {
			k = 1
			if dead {
				k = 2
			}
		}
		cs.Stall = append(cs.Stall, k)
		var plan []Block
		switch k {
		case 1:
			// one to three blocked Sends, each held for 1-4 writes (the last maybe to the end)
			at := 1 + r.Intn(2)
			for b, nb := 0, 1+r.Intn(3); b < nb; b++ {
				plan = append(plan, Block{At: at, Hold: 1 + r.Intn(4)})
				at += 1 + r.Intn(2)
			}
		case 2:
			// no transient block beside it: with the 100 ms timer of this family a Send held
			// for a few writes could time out on a loaded machine
			plan = append(plan, Block{At: 1 + r.Intn(3), Hold: 0})
		}
		if k != 2 && r.Chance(1, 8) {
			// a Send that fails outright (after the planned blocks, if any)
			at := 1 + r.Intn(3)
			if len(plan) > 0 {
				at = plan[len(plan)-1].At + 1 + r.Intn(2)
			}
			plan = append(plan, Block{At: at, Hold: -1})
		}
		cs.Plan = append(cs.Plan, plan)
	}
	// sibling / nested path pairs: the subscriber that ends and one that stays
	if r.Chance(1, 2) && nsub >= 2 {
		pairs := [][2][]string{{{"a", "x"}, {"a", "y"}}, {{"a", "x"}, {"a"}}, {{"a"}, {"a", "x"}}, {{"a", "x"}, {}}, {{"b"}, {"c", "z"}}}
		pr := pairs[r.Intn(len(pairs))]
		cs.Subs[0] = SubCfg{Qs: [][]string{append([]string{t}, pr[0]...)}}
		cs.Subs[1] = SubCfg{Qs: [][]string{append([]string{t}, pr[1]...)}}
	}
	cs.CancelSub = -1
	for i := 0; i < nsub; i++ {
		if cs.Stall[i] == 0 && r.Chance(1, 3) {
			cs.CancelSub = i
			cs.CancelAfter = 1 + r.Intn(3)
			break
		}
	}
	cs.Plan = append(cs.Plan, nil)
	cs.Subs = append(cs.Subs, SubCfg{Qs: [][]string{{t}}})
	cs.Stall = append(cs.Stall, 0)
	cs.Late = true
	return cs
}

// genACL: never-stalled subscribers of all targets ("*") behind an ACL that hides t2, writes
// to both targets, quiet periods of three timeouts after every hidden-target write.
func genACL(r *vh.Rand) *Case {
	cs := &Case{Family: "acl-quiet", Mode: "stall", ED: false, NW: 1, Seed: r.U64() % 1000000, TimeoutMs: 50, Hidden: []string{"t2"}, CancelSub: -1}
	ts := int64(1)
	for i, n := 0, 2+r.Intn(4); i < n; i++ {
		t := targets[r.Intn(2)]
		ts++
		cs.Ops = append(cs.Ops, Op{W: 0, K: "upd", P: append([]string{t}, leafUniverse[r.Intn(2)]...), V: int64(1 + r.Intn(5)), TS: ts})
	}
	// at least one hidden write, followed by a visible one
	ts++
	cs.Ops = append(cs.Ops, Op{W: 0, K: "upd", P: []string{"t2", "a", "x"}, V: 7, TS: ts})
	ts++
	cs.Ops = append(cs.Ops, Op{W: 0, K: "upd", P: []string{"t1", "a", "x"}, V: 8, TS: ts})
	shapes := [][]string{{"*"}, {"*", "a"}, {"*", "*", "x"}, {"t1"}, {"t1", "a"}}
	for i, n := 0, 2+r.Intn(2); i < n; i++ {
		q := shapes[r.Intn(len(shapes))]
		if i == 0 {
			q = shapes[r.Intn(3)]
		}
		cs.Subs = append(cs.Subs, SubCfg{Qs: [][]string{q}, UO: r.Chance(1, 5)})
		cs.Stall = append(cs.Stall, 0)
		cs.Plan = append(cs.Plan, nil)
	}
	return cs
}

// genWalkStall: a large store; one subscriber is stalled during its initial walk over it (its
// first Send never returns); a writer adds NEW leaves and deletes under the walked subtree,
// updates other paths; the writer and the other subscribers must go on.
func genWalkStall(r *vh.Rand, bulk int) *Case {
	cs := &Case{Family: "walk-stall", Mode: "stall", ED: false, NW: 1, Seed: r.U64() % 1000000, TimeoutMs: 60000,
		CancelSub: -1, Bulk: bulk, WalkStall: 2}
	cs.Subs = []SubCfg{{Qs: [][]string{{"t1", "b"}}}, {Qs: [][]string{{"t1", "a", "n5"}, {"t1", "a", "new1"}}}, {Qs: [][]string{{"t1", "a"}}}}
	if r.Chance(1, 2) {
		cs.Subs[2] = SubCfg{Qs: [][]string{{"t1"}}}
	}
	cs.Stall = []int{0, 0, 0}
	cs.Plan = [][]Block{nil, nil, nil}
	ts := int64(2)
	ops := []Op{
		{W: 0, K: "upd", P: []string{"t1", "a", "new1"}, V: 1},
		{W: 0, K: "del", P: []string{"t1", "a", fmt.Sprintf("n%d", 10+r.Intn(100))}},
		{W: 0, K: "upd", P: []string{"t1", "b", "x"}, V: 2},
		{W: 0, K: "upd", P: []string{"t1", "a", "n5"}, V: 9},
		{W: 0, K: "upd", P: []string{"t1", "newroot", "y"}, V: 3},
		{W: 0, K: "del", P: []string{"t1", "a", "new1"}},
		{W: 0, K: "upd", P: []string{"t1", "a", "new1"}, V: 4},
	}
	for i := len(ops) - 1; i > 0; i-- { // seeded order
		j := r.Intn(i + 1)
		ops[i], ops[j] = ops[j], ops[i]
	}
	for _, o := range ops {
		ts++
		o.TS = ts
		cs.Ops = append(cs.Ops, o)
	}
	return cs
}

func readCases(path string) []*Case {
	b, err := os.ReadFile(path)
	if err != nil {
		vh.Die("read %s: %v", path, err)
	}
	var cs []*Case
	if err := json.Unmarshal(b, &cs); err != nil {
		var one Case
		if err2 := json.Unmarshal(b, &one); err2 != nil {
			vh.Die("parse %s: %v", path, err)
		}
		cs = []*Case{&one}
	}
	return cs
}

func main() {
	flag.Set("logtostderr", "true")
	flag.Set("stderrthreshold", "FATAL")
	o := vh.ParseFlags()
	if devnull, err := os.OpenFile(os.DevNull, os.O_WRONLY, 0); err == nil {
		os.Stderr = devnull
	}
	meta := vh.NewMeta("corpus; seeded scenarios: 0-2 pre-populated leaves, 2-3 STREAM subscribers (1-2 paths, updates_only 1/6) on a real subscribe.Server with statistics, one or more of them stalled in Send (family slow: until the last write, timeout 60 s; family dead: for ever, timeout 100 ms), 3-14 writes (updates of 1-3 leaves, stale updates, deletes) made one at a time while the Send is blocked, each followed by waiting (goroutine states) until every sender is parked. distinct = distinct (ops, subscriptions, stalls); non-trivial = writes were made while a Send was blocked and (slow) a resumed response carried a duplicate count > 0 / (dead) the timer ran")
	e := &emitter{dir: o.Out, cf: vh.NewCaseFile(), meta: meta, limit: 300}
	if o.Replay != "" {
		for _, c := range readCases(o.Replay) {
			e.run(c)
		}
		e.flush()
		meta.Write(o.Out)
		return
	}
	if dir := os.Getenv("VERIF_CORPUS"); dir != "" {
		ents, _ := os.ReadDir(dir)
		var names []string
		for _, en := range ents {
			if strings.HasSuffix(en.Name(), ".json") {
				names = append(names, en.Name())
			}
		}
		sort.Strings(names)
		for _, n := range names {
			for _, c := range readCases(dir + "/" + n) {
				c.Family = "corpus"
				e.run(c)
			}
		}
	}
	r := vh.NewRand(o.Seed)
	nslow, ndead := 500, 60
	if o.Thorough() {
		nslow, ndead = 12000, 1500
	}
	for i := 0; i < nslow && e.bad < 3; i++ {
		e.run(genCase(r.Fork(), false))
	}
	for i := 0; i < ndead && e.bad < 3; i++ {
		e.run(genCase(r.Fork(), true))
	}
	nws, bulk := 1, 6000
	if o.Thorough() {
		nws, bulk = 6, 20000
	}
	for i := 0; i < nws && e.bad < 3; i++ {
		e.run(genWalkStall(r.Fork(), bulk))
	}
	nacl := 12
	if o.Thorough() {
		nacl = 300
	}
	for i := 0; i < nacl && e.bad < 3; i++ {
		e.run(genACL(r.Fork()))
	}
	e.flush()
	if err := meta.Write(o.Out); err != nil {
		vh.Die("meta: %v", err)
	}
}

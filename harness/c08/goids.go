package main

import (
	"bytes"
	"runtime"
	"strconv"
)

func curGoid() int64 {
	var buf [64]byte
	n := runtime.Stack(buf[:], false)
	b := buf[:n]
	b = b[len("goroutine "):]
	i := bytes.IndexByte(b, ' ')
	id, _ := strconv.ParseInt(string(b[:i]), 10, 64)
	return id
}

// goStates returns the state string of every goroutine ("running", "select",
// "chan receive", ...), taken in one stop-the-world snapshot.
func goStates() map[int64]string {
	buf := make([]byte, 1<<16)
	for {
		n := runtime.Stack(buf, true)
		if n < len(buf) {
			buf = buf[:n]
			break
		}
		buf = make([]byte, 2*len(buf))
	}
	out := map[int64]string{}
	for _, blk := range bytes.Split(buf, []byte("\n\n")) {
		if !bytes.HasPrefix(blk, []byte("goroutine ")) {
			continue
		}
		b := blk[len("goroutine "):]
		i := bytes.IndexByte(b, ' ')
		if i < 0 {
			continue
		}
		id, err := strconv.ParseInt(string(b[:i]), 10, 64)
		if err != nil {
			continue
		}
		b = b[i+1:]
		if len(b) == 0 || b[0] != '[' {
			continue
		}
		j := bytes.IndexByte(b, ']')
		if j < 0 {
			continue
		}
		st := string(b[1:j])
		if k := bytes.IndexByte([]byte(st), ','); k >= 0 {
			st = st[:k]
		}
		out[id] = st
	}
	return out
}

// Engine of the C08 harness (copied from harness/c04/engine.go, which see): a real cache.Cache, a real subscribe.Server fed through
// cache.SetClient, in-memory Subscribe streams, projection of observables.
package main

import (
	"context"
	"fmt"
	"net"
	"sort"
	"strings"
	"sync"

	"github.com/openconfig/gnmi/cache"
	"github.com/openconfig/gnmi/ctree"
	"github.com/openconfig/gnmi/metadata"
	pb "github.com/openconfig/gnmi/proto/gnmi"
	"github.com/openconfig/gnmi/subscribe"
	"github.com/openconfig/gnmi/zz_verif/vh"
	"google.golang.org/grpc"
	"google.golang.org/grpc/peer"
)

// Op is one write: K = upd | del | reset.  P is the full index path, target
// first (for reset: just the target).  W is the writer goroutine; W = -1 is
// pre-population, applied before any thread starts.
type Op struct {
	W  int      `json:"w"`
	K  string   `json:"k"`
	P  []string `json:"p"`
	V  int64    `json:"v,omitempty"`
	TS int64    `json:"ts,omitempty"`
}

// SubCfg is one STREAM subscription; every query starts with the target.
type SubCfg struct {
	Qs [][]string `json:"qs"`
	UO bool       `json:"uo,omitempty"`
}

// Block is one blocked Send of a stall plan.
type Block struct {
	At   int `json:"at"`
	Hold int `json:"hold"`
}

// Resp is a projected SubscribeResponse.
type Resp struct {
	K   string   `json:"k"` // upd del sync other
	P   []string `json:"p,omitempty"`
	V   int64    `json:"v,omitempty"`
	TS  int64    `json:"ts,omitempty"`
	Dup int      `json:"dup,omitempty"`
}

// Leaf is one entry of a Query dump.
type Leaf struct {
	P  []string `json:"p"`
	V  int64    `json:"v"`
	TS int64    `json:"ts"`
}

// Case is the unit of work and of replay.
type Case struct {
	Family   string   `json:"family"`
	Mode     string   `json:"mode"` // S | A
	ED       bool     `json:"ed"`
	NW       int      `json:"nw"`
	Ops      []Op     `json:"ops"`
	Subs     []SubCfg `json:"subs"`
	Schedule []string `json:"schedule,omitempty"` // mode S: threads released, in order
	Forced   bool     `json:"forced,omitempty"`   // follow Schedule, then drain in fixed order
	Seed     uint64   `json:"seed"`
	MaxSteps int      `json:"max_steps,omitempty"`
	Note     string   `json:"note,omitempty"`
	// C08: per subscriber 0 never stalled, 1 stalled until the last write is done, 2 stalled for ever
	Stall []int `json:"stall"`
	// C08: per subscriber the Sends of phase 2 (1-based ordinal) that block, and for how
	// many further writes (0 = for ever)
	Plan [][]Block `json:"plan,omitempty"`
	// C08 family walk-stall: Bulk leaves t1/a/n<k> are written before anything else; the very
	// first Send of subscriber WalkStall (its initial walk is under way or just over) blocks
	// until the run ends
	Bulk      int `json:"bulk,omitempty"`
	WalkStall int `json:"walk_stall"`
	// C08 family acl-quiet: targets the RPC's ACL hides; after a write to one of them (and
	// after every subscription start) the harness stays quiet for 3 timeouts
	Hidden []string `json:"hidden,omitempty"`
	// C08: CancelSub >= 0: that (never stalled) subscriber's client goes away after write number CancelAfter
	CancelSub   int `json:"cancel_sub"`
	CancelAfter int `json:"cancel_after"`
	// C08: the last subscriber starts when everything else is over (Stall 0)
	Late      bool `json:"late,omitempty"`
	TimeoutMs int  `json:"timeout_ms"`
	Obs       *Obs `json:"obs,omitempty"`
}

// Obs is what one run showed.
type Obs struct {
	Steps   []string   `json:"steps,omitempty"` // readable trace
	Streams [][]Resp   `json:"streams"`
	Ended   []bool     `json:"ended"`
	Dump    []Leaf     `json:"dump"`
	Snaps   [][]string `json:"snaps,omitempty"`
	Bad     string     `json:"bad,omitempty"`
	// C08
	Results    []string   `json:"results,omitempty"`    // result class of every phase-2 write
	Deq        [][][2]int `json:"deq,omitempty"`        // per subscriber: (duplicates, queue length) at every dequeue
	Coal       []int      `json:"coal,omitempty"`       // ClientStats.CoalesceCount at the end
	Returned   bool       `json:"returned"`             // every write returned within 5 s
	WhileBlock int        `json:"writes_while_blocked"` // writes made while a Send was blocked
	Log        []string   `json:"log,omitempty"`        // the run as a sequence of atomic steps
	Stalled    []int      `json:"stalled,omitempty"`    // stall kind of the subscribers whose Send did block
}

var targets = []string{"t1", "t2"}

func allMeta() []string {
	var out []string
	for k := range metadata.TargetBoolValues {
		out = append(out, k)
	}
	for k := range metadata.TargetIntValues {
		out = append(out, k)
	}
	for k := range metadata.TargetStrValues {
		out = append(out, k)
	}
	sort.Strings(out)
	return out
}

type engine struct {
	c        *cache.Cache
	srv      *subscribe.Server
	feedHook func(l *ctree.Leaf)
	streams  []*memStream
}

func newEngine(cs *Case, opts ...subscribe.Option) *engine {
	e := &engine{}
	copts := []cache.Option{cache.WithExcludedMeta(allMeta())}
	if !cs.ED {
		copts = append(copts, cache.DisableEventDrivenEmulation())
	}
	e.c = cache.New(targets, copts...)
	srv, err := subscribe.NewServer(e.c, opts...)
	if err != nil {
		vh.Die("NewServer: %v", err)
	}
	e.srv = srv
	e.c.SetClient(func(l *ctree.Leaf) {
		if e.feedHook != nil {
			e.feedHook(l)
		}
		srv.Update(l)
	})
	return e
}

func elems(p []string) []*pb.PathElem {
	out := make([]*pb.PathElem, 0, len(p))
	for _, s := range p {
		out = append(out, &pb.PathElem{Name: s})
	}
	return out
}

// apply runs one write on the real cache; result class ok | stale | err.
func (e *engine) apply(o Op) string {
	switch o.K {
	case "upd":
		n := &pb.Notification{
			Timestamp: o.TS,
			Prefix:    &pb.Path{Target: o.P[0]},
			Update: []*pb.Update{{
				Path: &pb.Path{Elem: elems(o.P[1:])},
				Val:  &pb.TypedValue{Value: &pb.TypedValue_IntVal{IntVal: o.V}},
			}},
		}
		err := e.c.GnmiUpdate(n)
		switch {
		case err == nil:
			return "ok"
		case err == cache.ErrStale:
			return "stale"
		default:
			return "err"
		}
	case "del":
		n := &pb.Notification{
			Timestamp: o.TS,
			Prefix:    &pb.Path{Target: o.P[0]},
			Delete:    []*pb.Path{{Elem: elems(o.P[1:])}},
		}
		if err := e.c.GnmiUpdate(n); err != nil {
			return "err"
		}
		return "ok"
	case "reset":
		e.c.Reset(o.P[0])
		return "ok"
	}
	return "err"
}

// notiPath is the index path of a single-update / single-delete notification,
// target first; reset tells a Target.Reset delete (origin carries the root).
func notiPath(n *pb.Notification) (p []string, isDel bool, reset bool) {
	pre := n.GetPrefix()
	p = append(p, pre.GetTarget())
	if o := pre.GetOrigin(); o != "" {
		p = append(p, o)
		reset = true
	}
	for _, e := range pre.GetElem() {
		p = append(p, e.GetName())
	}
	switch {
	case len(n.GetUpdate()) == 1 && len(n.GetDelete()) == 0:
		for _, e := range n.Update[0].GetPath().GetElem() {
			p = append(p, e.GetName())
		}
		return p, false, false
	case len(n.GetDelete()) == 1 && len(n.GetUpdate()) == 0:
		for _, e := range n.Delete[0].GetElem() {
			p = append(p, e.GetName())
		}
		return p, true, reset
	}
	return nil, false, false
}

func projResp(r *pb.SubscribeResponse) Resp {
	switch v := r.GetResponse().(type) {
	case *pb.SubscribeResponse_SyncResponse:
		if v.SyncResponse {
			return Resp{K: "sync"}
		}
	case *pb.SubscribeResponse_Update:
		n := v.Update
		p, isDel, reset := notiPath(n)
		if p == nil {
			return Resp{K: "other"}
		}
		if isDel {
			ts := n.GetTimestamp()
			if reset {
				ts = 0 // wall clock
			}
			return Resp{K: "del", P: p, TS: ts}
		}
		iv, ok := n.Update[0].GetVal().GetValue().(*pb.TypedValue_IntVal)
		if !ok {
			return Resp{K: "other"}
		}
		return Resp{K: "upd", P: p, V: iv.IntVal, TS: n.GetTimestamp(), Dup: int(n.Update[0].GetDuplicates())}
	}
	return Resp{K: "other"}
}

// dump is Query(*, [*]) projected and sorted.
func (e *engine) dump() []Leaf {
	var out []Leaf
	var mu sync.Mutex
	e.c.Query("*", []string{"*"}, func(_ []string, _ *ctree.Leaf, v interface{}) error {
		n, ok := v.(*pb.Notification)
		if !ok {
			return nil
		}
		p, isDel, _ := notiPath(n)
		if p == nil || isDel {
			return nil
		}
		iv, ok := n.Update[0].GetVal().GetValue().(*pb.TypedValue_IntVal)
		if !ok {
			return nil
		}
		mu.Lock()
		out = append(out, Leaf{P: p, V: iv.IntVal, TS: n.GetTimestamp()})
		mu.Unlock()
		return nil
	})
	sort.Slice(out, func(i, j int) bool { return strings.Join(out[i].P, "/") < strings.Join(out[j].P, "/") })
	return out
}

// ---------------------------------------------------------------------------
// in-memory Subscribe stream

type memStream struct {
	grpc.ServerStream
	idx    int
	ctx    context.Context
	cancel context.CancelFunc
	req    *pb.SubscribeRequest
	mu     sync.Mutex
	recvd  bool
	sent   []Resp
	goids  map[int64]bool // goroutines that asked for the context (Subscribe and its sender)
	// onSend is called with the projected response before Send returns; a
	// non-nil error is what Send returns.
	onSend func(s *memStream, r Resp) error
	// afterSend is called when Send is about to return successfully
	afterSend func(s *memStream)
}

func newStream(i int, sc SubCfg) *memStream {
	ctx := peer.NewContext(context.Background(), &peer.Peer{Addr: &net.TCPAddr{IP: net.IPv4(127, 0, 0, 1), Port: 1000 + i}})
	ctx, cancel := context.WithCancel(ctx)
	sl := &pb.SubscriptionList{
		Prefix:      &pb.Path{Target: sc.Qs[0][0]},
		Mode:        pb.SubscriptionList_STREAM,
		UpdatesOnly: sc.UO,
	}
	for _, q := range sc.Qs {
		sl.Subscription = append(sl.Subscription, &pb.Subscription{Path: &pb.Path{Elem: elems(q[1:])}})
	}
	return &memStream{idx: i, ctx: ctx, cancel: cancel, goids: map[int64]bool{},
		req: &pb.SubscribeRequest{Request: &pb.SubscribeRequest_Subscribe{Subscribe: sl}}}
}

func (s *memStream) Context() context.Context {
	g := curGoid()
	s.mu.Lock()
	s.goids[g] = true
	s.mu.Unlock()
	return s.ctx
}

func (s *memStream) Recv() (*pb.SubscribeRequest, error) {
	s.mu.Lock()
	first := !s.recvd
	s.recvd = true
	s.mu.Unlock()
	if first {
		return s.req, nil
	}
	<-s.ctx.Done()
	return nil, s.ctx.Err()
}

func (s *memStream) Send(r *pb.SubscribeResponse) error {
	o := projResp(r)
	if s.onSend != nil {
		if err := s.onSend(s, o); err != nil {
			return err
		}
	}
	s.mu.Lock()
	s.sent = append(s.sent, o)
	s.mu.Unlock()
	if s.afterSend != nil {
		s.afterSend(s)
	}
	return nil
}

func (s *memStream) snapshot() []Resp {
	s.mu.Lock()
	defer s.mu.Unlock()
	return append([]Resp(nil), s.sent...)
}

// ---------------------------------------------------------------------------
// input-side relations (generator and labels only; the judgement is Coq's)

func covers(d, p []string) bool {
	if len(d) == 0 {
		return true
	}
	if len(p) == 0 {
		return d[0] == "*" && len(d) == 1
	}
	return (d[0] == "*" || d[0] == p[0]) && covers(d[1:], p[1:])
}

func compat(q, d []string) bool {
	for i := 0; i < len(q) && i < len(d); i++ {
		if q[i] != "*" && d[i] != "*" && q[i] != d[i] {
			return false
		}
	}
	return true
}

func pstr(p []string) string { return strings.Join(p, "/") }

func (o Op) String() string {
	switch o.K {
	case "upd":
		return fmt.Sprintf("w%d:upd %s=%d@%d", o.W, pstr(o.P), o.V, o.TS)
	case "del":
		return fmt.Sprintf("w%d:del %s@%d", o.W, pstr(o.P), o.TS)
	}
	return fmt.Sprintf("w%d:reset %s", o.W, pstr(o.P))
}

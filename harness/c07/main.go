// Harness for C07 (subscribers never receive data for targets their ACL
// denies): every script is run against a server with a table-driven fake ACL
// (subscribe.ACL / subscribe.RPCACL) and again against a server without ACL;
// EVERY response passed to Send is recorded.  See engine.go.
package main

import (
	"os"
	"sort"
	"strings"

	"github.com/openconfig/gnmi/zz_verif/vh"
)

var broadQueries = [][]Elem{{}, {}, {el("*")}, {el("*")}, {el("a")}, {el("b")}, {el("a"), el("*")}, {el("*"), el("*")}, {el("c")}, {el("b", "k", "*")}, {el("e")}, {el("d")}}

func (g *gen) aclRequest(targets []string, mode int) *Req {
	r := g.r
	rq := &Req{HasSub: true, Mode: mode, UpdatesOnly: r.Chance(1, 5)}
	pf := &GPath{}
	switch r.Pick(58, 34, 3, 2, 2, 1) {
	case 0:
		pf.Target = "*"
	case 1:
		pf.Target = targets[r.Intn(len(targets))]
	case 2:
		pf.Target = "tx"
	case 3:
		pf.Target = ""
	case 4:
		pf = nil
	case 5:
		rq.HasSub = false
	}
	if pf != nil {
		if r.Chance(1, 2) {
			pf.Origin = g.requestOrigin()
		}
		if r.Chance(1, 8) {
			pf.Elems = g.queryPath(1)
		}
	}
	rq.Prefix = pf
	k := 1 + r.Pick(5, 3, 2)
	if r.Chance(1, 25) {
		k = 0 // no subscription at all: the single-target check must still reject
	}
	for i := 0; i < k; i++ {
		if r.Chance(1, 30) {
			rq.Subs = append(rq.Subs, nil)
			continue
		}
		p := &GPath{}
		if r.Chance(7, 10) {
			p.Elems = broadQueries[r.Intn(len(broadQueries))]
		} else {
			p.Elems = g.queryPath(3)
		}
		if pf != nil && pf.Origin != "" {
			if r.Chance(1, 30) {
				p.Origin = "oc"
			}
		} else {
			p.Origin = g.requestOrigin()
		}
		rq.Subs = append(rq.Subs, p)
	}
	return rq
}

func (g *gen) aclCase(thorough bool) Case {
	r := g.r
	if r.Chance(7, 10) {
		g.ow = [3]int{10, 0, 0} // most ACL cases do not use origins
	}
	targets := []string{"t1", "t2", "t3"}
	if r.Chance(1, 5) {
		targets = targets[:2]
	}
	c := Case{Targets: targets, HasACL: !r.Chance(1, 14)}
	// table over 2 users x 3 targets; a missing row denies
	for _, u := range []string{"u1", "u2"} {
		for _, t := range []string{"t1", "t2", "t3"} {
			switch r.Pick(6, 3, 1) {
			case 0:
				c.ACL = append(c.ACL, ACLRow{User: u, Target: t, Allow: true})
			case 1:
				c.ACL = append(c.ACL, ACLRow{User: u, Target: t, Allow: false})
			}
		}
	}
	switch r.Pick(45, 45, 5, 5) {
	case 0:
		c.User = strp("u1")
	case 1:
		c.User = strp("u2")
	case 2:
		c.User = strp("u3") // no row: everything denied
	}
	// in 1/5 of the cases the operator changes the table during the script
	// (grants and revocations): the per-response check must follow
	dynamic := c.HasACL && r.Chance(1, 5)
	aclset := func() Step {
		rows := append([]ACLRow{}, c.ACL...)
		for _, u := range []string{"u1", "u2"} {
			t := []string{"t1", "t2", "t3"}[r.Intn(3)]
			found := false
			for i := range rows {
				if rows[i].User == u && rows[i].Target == t {
					rows[i].Allow = !rows[i].Allow
					found = true
				}
			}
			if !found {
				rows = append(rows, ACLRow{User: u, Target: t, Allow: true})
			}
		}
		c.ACL = rows
		return Step{K: "aclset", Rows: rows}
	}
	initialACL := append([]ACLRow{}, c.ACL...)
	pathOrigins := r.Chance(1, 6)
	ninit := 2 + r.Intn(8)
	for i := 0; i < ninit; i++ {
		c.Ops = append(c.Ops, g.cacheStep(targets, pathOrigins, false))
	}
	mode := []int{0, 1, 2, 7}[r.Pick(58, 17, 23, 2)]
	c.Req = g.aclRequest(targets, mode)
	if r.Chance(1, 200) {
		c.Req = nil
	}
	if c.User == nil && c.Req != nil && r.Chance(1, 2) {
		// no identity AND a request that validation would reject: the call must
		// still end as Unauthenticated (the ACL is derived before the first Recv)
		switch r.Intn(4) {
		case 0:
			c.Req.Prefix = &GPath{Target: "tx"}
		case 1:
			c.Req.Prefix = &GPath{}
		case 2:
			c.Req.Prefix = nil
		case 3:
			c.Req.HasSub = false
		}
	}
	burst := func() {
		k := 2 + r.Intn(6)
		for i := 0; i < k; i++ {
			b := 1
			if i == k-1 {
				b = 2
			}
			c.Ops = append(c.Ops, g.burstWrite(targets, b))
		}
	}
	if r.Chance(1, 8) {
		// the initial walk is overlapped by concurrent writers
		c.Ops = append(c.Ops, Step{K: "sub", Burst: 1})
		burst()
	} else {
		c.Ops = append(c.Ops, Step{K: "sub"})
	}
	switch mode {
	case 0:
		ne := 2 + r.Intn(9)
		if thorough {
			ne += r.Intn(8)
		}
		for i := 0; i < ne; i++ {
			if dynamic && r.Chance(1, 3) {
				c.Ops = append(c.Ops, aclset())
			} else if r.Chance(1, 5) {
				burst() // concurrent update streams across allowed and denied targets
			} else {
				c.Ops = append(c.Ops, g.cacheStep(targets, pathOrigins, true))
			}
		}
	case 2:
		np := r.Pick(2, 4, 3, 2)
		for p := 0; p < np; p++ {
			ne := r.Pick(3, 4, 3)
			for i := 0; i < ne; i++ {
				c.Ops = append(c.Ops, g.cacheStep(targets, pathOrigins, true))
			}
			if dynamic && r.Chance(1, 2) {
				c.Ops = append(c.Ops, aclset())
			}
			c.Ops = append(c.Ops, Step{K: "poll"})
		}
	}
	c.ACL = initialACL // the table the server starts with
	return c
}

// tableCases: one fixed script (snapshot of three targets, then one update, one
// subtree delete and one whole-target removal per target) under every ACL row
// set for one user, for all modes, updates_only, single target and "*".
func tableCases(emit func(Case)) int {
	targets := []string{"t1", "t2", "t3"}
	ts := int64(0)
	upd := func(t string, p []Elem, v int64) Step {
		ts++
		return Step{K: "update", N: &Noti{TS: ts, Prefix: GPath{Target: t}, Upds: []Upd{{Path: GPath{Elems: p}, Val: v}}}}
	}
	del := func(t string, p []Elem) Step {
		ts++
		return Step{K: "update", N: &Noti{TS: ts, Prefix: GPath{Target: t}, Dels: []GPath{{Elems: p}}}}
	}
	var init, after []Step
	for i, t := range targets {
		init = append(init, upd(t, []Elem{el("a"), el("b")}, int64(i)), upd(t, []Elem{el("a"), el("c")}, int64(i+3)))
	}
	for i, t := range targets {
		after = append(after, upd(t, []Elem{el("a"), el("b")}, int64(i+10)), del(t, []Elem{el("a")}))
	}
	for _, t := range targets {
		ts++
		after = append(after, Step{K: "remove", Target: t, Now: ts})
	}
	n := 0
	for mask := 0; mask < 8; mask++ {
		var rows []ACLRow
		for i, t := range targets {
			rows = append(rows, ACLRow{User: "u1", Target: t, Allow: mask&(1<<i) != 0})
		}
		for _, mode := range []int{0, 1, 2} {
			for _, uo := range []bool{false, true} {
				for _, tgt := range []string{"*", "t1", "t2"} {
					c := Case{Targets: targets, HasACL: true, ACL: rows, User: strp("u1"),
						Req: &Req{HasSub: true, Prefix: &GPath{Target: tgt}, Subs: []*GPath{{Elems: []Elem{el("a")}}}, Mode: mode, UpdatesOnly: uo}}
					c.Ops = append(append([]Step{}, init...), Step{K: "sub"})
					if mode == 0 {
						c.Ops = append(c.Ops, after...)
					} else if mode == 2 {
						c.Ops = append(c.Ops, after[0], Step{K: "poll"}, after[len(after)-3], Step{K: "poll"})
					}
					emit(c)
					n++
				}
			}
		}
	}
	return n
}

// mixedTable: user u1 is allowed t1 and denied t2 (t3 random); u2 random; "adm" everything.
func mixedTable(g *gen) []ACLRow {
	rows := []ACLRow{{User: "u1", Target: "t1", Allow: true}, {User: "u1", Target: "t2", Allow: false},
		{User: "u1", Target: "t3", Allow: g.r.Chance(1, 2)}}
	for _, t := range []string{"t1", "t2", "t3"} {
		rows = append(rows, ACLRow{User: "adm", Target: t, Allow: true})
		rows = append(rows, ACLRow{User: "u2", Target: t, Allow: g.r.Chance(1, 3)})
	}
	return rows
}

func leafUpdate(g *gen, t string, idle int) Step {
	g.ts += 1 + int64(g.r.Intn(2))
	return Step{K: "update", IdleMS: idle, N: &Noti{TS: g.ts, Prefix: GPath{Target: t},
		Upds: []Upd{{Path: GPath{Elems: g.leafPath()}, Val: 100 + g.ts}}}}
}

// idleDeniedCase: STREAM on "*" by a caller denied at least one target, on a
// server with a small send timeout: a denied update (or delete) is dequeued,
// the queue then stays quiet for about three times the timeout, then an update
// for an authorised target must still arrive.
func (g *gen) idleDeniedCase() Case {
	const timeoutMS, gapMS = 100, 320
	r := g.r
	g.ow = [3]int{10, 0, 0}
	targets := []string{"t1", "t2", "t3"}
	c := Case{Targets: targets, HasACL: true, ACL: mixedTable(g), User: strp("u1"), TimeoutMS: timeoutMS}
	ninit := 2 + r.Intn(4)
	for i := 0; i < ninit; i++ {
		c.Ops = append(c.Ops, g.cacheStep(targets, false, false))
	}
	c.Req = &Req{HasSub: true, Prefix: &GPath{Target: "*"}, Mode: 0, UpdatesOnly: r.Chance(1, 3),
		Subs: []*GPath{{Elems: broadQueries[r.Intn(4)]}}}
	c.Ops = append(c.Ops, Step{K: "sub"})
	if r.Chance(1, 2) {
		c.Ops = append(c.Ops, leafUpdate(g, "t1", 0))
	}
	// the denied item
	if r.Chance(1, 4) {
		g.ts++
		c.Ops = append(c.Ops, Step{K: "update", N: &Noti{TS: g.ts, Prefix: GPath{Target: "t2"}, Dels: []GPath{{Elems: []Elem{el("*")}}}}})
	} else {
		c.Ops = append(c.Ops, leafUpdate(g, "t2", 0))
	}
	// quiet for longer than the send timeout, then authorised data
	c.Ops = append(c.Ops, leafUpdate(g, "t1", gapMS))
	if r.Chance(1, 2) {
		c.Ops = append(c.Ops, leafUpdate(g, "t2", 0), leafUpdate(g, "t1", 0))
	}
	return c
}

// pairCase: two overlapping Subscribe calls on one server from the same peer
// address with different identities.  The first caller (more privileged, or
// at least different) holds a STREAM open; the second arrives while it is
// open: another user, an unknown user, or a context without user (NewRPCACL
// fails).  Each call is judged on its own, exactly like a lone call.
func (g *gen) pairCase() Case {
	r := g.r
	g.ow = [3]int{10, 0, 0}
	targets := []string{"t1", "t2", "t3"}
	c := Case{Targets: targets, HasACL: !r.Chance(1, 20), ACL: mixedTable(g)}
	switch r.Pick(6, 2, 2) {
	case 0:
		c.User = strp("adm")
	case 1:
		c.User = strp("u1")
	case 2:
		c.User = strp("u2")
	}
	switch r.Pick(4, 3, 1, 2) {
	case 0:
		c.User2 = strp("u1")
	case 1:
		c.User2 = strp("u2")
	case 2:
		c.User2 = strp("u3")
	}
	ninit := 3 + r.Intn(6)
	for i := 0; i < ninit; i++ {
		c.Ops = append(c.Ops, g.cacheStep(targets, false, false))
	}
	c.Req = g.aclRequest(targets, 0)
	c.Req.HasSub = true
	c.Req.Prefix = &GPath{Target: "*"}
	mode2 := []int{1, 0, 2}[r.Pick(5, 3, 2)]
	c.Req2 = g.aclRequest(targets, mode2)
	c.Ops = append(c.Ops, Step{K: "sub"})
	ne := r.Intn(3)
	for i := 0; i < ne; i++ {
		c.Ops = append(c.Ops, g.cacheStep(targets, false, false))
	}
	c.Ops = append(c.Ops, Step{K: "sub2"})
	ne = 1 + r.Intn(5)
	for i := 0; i < ne; i++ {
		c.Ops = append(c.Ops, g.cacheStep(targets, false, true))
	}
	return c
}

// heldPairCase: two STREAM calls on "*" on one server, a restricted user (u1:
// t1 allowed, t2 denied) and an administrator, both stepped through the gates
// of their streams so that both coalesce (duplicate counts > 0) and one of
// them is parked inside Send - after its ACL check - while the other builds
// and sends responses for a target the first is denied.  GOMAXPROCS(1).
func (g *gen) heldPairCase() Case {
	r := g.r
	g.ow = [3]int{10, 0, 0}
	targets := []string{"t1", "t2", "t3"}
	c := Case{Targets: targets, HasACL: true, ACL: mixedTable(g), User: strp("u1"), User2: strp("adm"), OneP: true}
	if r.Chance(1, 4) {
		c.User, c.User2 = c.User2, c.User // the administrator subscribes first
	}
	for i := r.Intn(3); i > 0; i-- {
		c.Ops = append(c.Ops, g.cacheStep(targets, false, false))
	}
	star := func() *Req {
		return &Req{HasSub: true, Prefix: &GPath{Target: "*"}, Mode: 0, UpdatesOnly: r.Chance(1, 2), Subs: []*GPath{{}}}
	}
	c.Req, c.Req2 = star(), star()
	c.Ops = append(c.Ops, Step{K: "sub"}, Step{K: "sub2"})
	restricted, admin := "a", "b"
	if *c.User == "adm" {
		restricted, admin = "b", "a"
	}
	p1, p2 := g.leafPath(), g.leafPath()
	upd := func(t string, p []Elem) Step {
		g.ts++
		return Step{K: "update", Burst: 1, N: &Noti{TS: g.ts, Prefix: GPath{Target: t}, Upds: []Upd{{Path: GPath{Elems: p}, Val: 100 + g.ts}}}}
	}
	span := []Step{{K: "gate", Target: "a", Gate: 0}, {K: "gate", Target: "b", Gate: 0}}
	n1, n2 := 3+r.Intn(2), 3+r.Intn(2)
	first, second := "t1", "t2"
	if r.Chance(1, 3) {
		first, second = "t2", "t1"
	}
	for i := 0; i < n1; i++ {
		span = append(span, upd(first, map[string][]Elem{"t1": p1, "t2": p2}[first]))
	}
	for i := 0; i < n2; i++ {
		span = append(span, upd(second, map[string][]Elem{"t1": p1, "t2": p2}[second]))
	}
	// step the restricted caller into the Send of a coalesced response, let the
	// administrator run ahead through its own coalesced responses, then release
	span = append(span, Step{K: "gate", Target: restricted, Gate: 1 + r.Intn(2)},
		Step{K: "gate", Target: admin, Gate: 1 + r.Intn(4)},
		Step{K: "gate", Target: restricted, Gate: -1},
		Step{K: "gate", Target: admin, Gate: -1})
	for i := range span {
		span[i].Burst = 1
	}
	span[0].Seq = true
	span[len(span)-1].Burst = 2
	c.Ops = append(c.Ops, span...)
	for i := r.Intn(3); i > 0; i-- {
		c.Ops = append(c.Ops, g.cacheStep(targets, false, true))
	}
	return c
}

func nontrivial(c *Case) bool {
	// the ACL made a difference: the un-ACL'd run delivered updates and the run
	// with the ACL delivered strictly fewer (filtered, or the RPC was rejected)
	n1, n2 := 0, 0
	for _, o := range c.R1.Obs {
		for _, r := range o.Group {
			if !r.Sync {
				n1++
			}
		}
	}
	if c.R2 != nil {
		for _, o := range c.R2.Obs {
			for _, r := range o.Group {
				if !r.Sync {
					n2++
				}
			}
		}
	}
	return c.HasACL && n2 > 0 && n2 > n1
}

func main() {
	o := vh.ParseFlags()
	quietLogs()
	meta := vh.NewMeta("corpus cases; table: a fixed three-target script (snapshot, then update, subtree delete and whole-target removal per target) under all 8 allow/deny row sets x modes {STREAM,ONCE,POLL} x updates_only x target {*,t1,t2}; random: ACL table over 2 users x 3 targets (allow / deny / missing row), user u1/u2/unknown/absent, ACL installed or not, 2-9 initial notifications, one request (STREAM 58% / ONCE / POLL / unknown mode; target * or single, 1-3 subscription paths), STREAM: 2-10 (thorough 2-17) streamed cache operations (single/multi update, atomic, subtree delete, target removal) across allowed and denied targets, 1/5 of them bursts of 2-7 concurrent writes (one writer goroutine per target, no quiescence in between), in 1/8 of the cases the initial walk itself is overlapped by such a burst; POLL: 0-3 triggers with edits; idle-after-denied: 12 (thorough 100) STREAM scripts on * by a caller denied a target, server WithTimeout(100ms): a denied update/delete, 320 ms of quiet, then an authorised update; two-callers: 160 (thorough 3000) scripts with two overlapping Subscribe calls on one server from the same peer address (first: a STREAM on * by adm/u1/u2; second, while it is open: ONCE/STREAM/POLL by u1/u2/unknown user/no user), each call judged on its own; two-callers-held: 60 (thorough 800) scripts with a restricted user and an administrator both streaming *, stepped through the gates of their streams (GOMAXPROCS(1)) so that both coalesce and one is parked inside Send while the other sends responses for the target the first is denied. Every case is run with the ACL and without. in every generated family (not corpus): with small probability a target and/or the deprecated element list on subscription paths, ignored request fields (Subscription.mode/sample_interval/heartbeat/suppress_redundant, qos, allow_aggregation, use_models, encoding, extension) and another construction of the server (options permuted, nil options interleaved, WithStats/WithFlowControlTest/stats hooks/explicit default timeout added). distinct = distinct inputs; non-trivial = ACL installed, the un-ACL'd run delivered at least one update and the run with the ACL strictly fewer (filtered or rejected)")
	e := &emitter{dir: o.Out, cf: newCaseFile(), meta: meta, limit: 175, require: "Subscribe.C07Check", twice: true, nontriv: nontrivial}

	if o.Replay == "" {
		e.noise = vh.NewRand(o.Seed ^ 0x5eed)
	}
	if o.Replay != "" {
		cs, err := readCases(o.Replay)
		if err != nil {
			die("replay: %v", err)
		}
		for _, c := range cs {
			e.add("replay", c)
		}
		e.flush()
		if meta.Samples == nil {
			meta.Samples = []interface{}{}
		}
		meta.Write(o.Out)
		return
	}
	if dir := os.Getenv("VERIF_CORPUS"); dir != "" {
		ents, _ := os.ReadDir(dir)
		var names []string
		for _, en := range ents {
			if strings.HasSuffix(en.Name(), ".json") {
				names = append(names, en.Name())
			}
		}
		sort.Strings(names)
		for _, nm := range names {
			cs, err := readCases(dir + "/" + nm)
			if err != nil {
				die("corpus file %s unreadable: %v", nm, err)
			}
			for _, c := range cs {
				e.add("corpus", c)
			}
		}
	}
	nt := tableCases(func(c Case) { e.add("table", c) })
	meta.Extra["table_cases"] = nt

	r := vh.NewRand(o.Seed)
	nrand := 1500
	if o.Thorough() {
		nrand = 30000
	}
	for i := 0; i < nrand; i++ {
		g := newGen(r.Fork())
		e.add("random", g.aclCase(o.Thorough()))
	}
	nidle, npair := 12, 160
	if o.Thorough() {
		nidle, npair = 100, 3000
	}
	for i := 0; i < nidle; i++ {
		e.add("idle-after-denied", newGen(r.Fork()).idleDeniedCase())
	}
	for i := 0; i < npair; i++ {
		e.add("two-callers", newGen(r.Fork()).pairCase())
	}
	nheld := 60
	if o.Thorough() {
		nheld = 800
	}
	for i := 0; i < nheld; i++ {
		e.add("two-callers-held", newGen(r.Fork()).heldPairCase())
	}
	e.flush()
	if meta.Samples == nil {
		meta.Samples = []interface{}{}
	}
	if err := meta.Write(o.Out); err != nil {
		die("meta: %v", err)
	}
}

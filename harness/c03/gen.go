// Generators (shared verbatim by harness/c02 and harness/c03).
package main

import (
	"fmt"

	"github.com/openconfig/gnmi/zz_verif/vh"
)

// ---------------------------------------------------------------------------
// C02: exhaustive short histories on one leaf

// one leaf t:a/b, two values, timestamps 1..3, updates and deletes
func c02Alphabet() []Op {
	var ops []Op
	for ts := int64(1); ts <= 3; ts++ {
		for v := int64(1); v <= 2; v++ {
			ops = append(ops, Op{K: "upd", Now: 0, N: updN(ts, pfx("t", "a"), pth("b"), ival(v))})
		}
		ops = append(ops, Op{K: "upd", Now: 0, N: delN(ts, pfx("t", "a"), pth("b"))})
	}
	return ops
}

func exhaustive(e *emitter, family string, al []Op, depth int, cfg CfgJ) {
	idx := make([]int, depth)
	var rec func(d int)
	rec = func(d int) {
		if d == depth {
			ops := make([]Op, depth)
			for i, k := range idx {
				ops[i] = al[k]
			}
			e.add(&Case{Family: family, Cfg: cfg, Targets: []string{"t"}, Ops: ops})
			return
		}
		for i := range al {
			idx[d] = i
			rec(d + 1)
		}
	}
	rec(0)
}

// ---------------------------------------------------------------------------
// random histories

type gen struct {
	r       *vh.Rand
	targets []string
	prop    string
	// aliasing family: shared prefix objects
	alias bool
}

var tsSmall = []int64{1, 2, 3, 4}

func (g *gen) ts() int64 {
	switch g.r.Pick(20, 2, 1) {
	case 0:
		return tsSmall[g.r.Intn(len(tsSmall))]
	case 1:
		return 5 + int64(g.r.Intn(6))
	}
	return 1700000000000000000 + int64(g.r.Intn(3))
}

func (g *gen) now() int64 {
	return []int64{0, 1, 3}[g.r.Intn(3)]
}

func (g *gen) target() string { return g.targets[g.r.Intn(len(g.targets))] }

func (g *gen) val() *ValJ {
	switch g.r.Pick(10, 3, 1, 1, 1, 1, 1) {
	case 0:
		return ival(int64(1 + g.r.Intn(2)))
	case 1:
		return sval([]string{"x", "y"}[g.r.Intn(2)])
	case 2:
		return &ValJ{K: "uint", I: int64(1 + g.r.Intn(2))}
	case 3:
		return &ValJ{K: "bool", B: g.r.Chance(1, 2)}
	case 4:
		return &ValJ{K: "bytes", S: "x"}
	case 5:
		return &ValJ{K: "json", S: "{\"k\":1}"}
	}
	return &ValJ{K: "none"}
}

// leafSplit returns (prefix elems, path elems) for one of a few index paths,
// in different prefix/path splits (same index path, different protobuf
// content).
func (g *gen) leafSplit() ([]ElemJ, []ElemJ) {
	if g.r.Chance(1, 40) { // a path longer than path.ToStrings' capacity hint (20), with keys
		var full []ElemJ
		for i := 0; i < 19+g.r.Intn(8); i++ {
			full = append(full, ElemJ{Name: fmt.Sprintf("l%d", i%3)})
		}
		full[3].Keys = map[string]string{"k": "v", "j": "w"}
		k := g.r.Intn(len(full))
		return full[:k], full[k:]
	}
	full := [][]ElemJ{
		elems("a", "b"),
		elems("a", "b"),
		elems("a", "c"),
		elems("a", "b", "c"), // collides with a/b
		elems("a"),           // collides with a/...
		{{Name: "d", Keys: map[string]string{"k": "1"}}, {Name: "e"}},
		{{Name: "d", Keys: map[string]string{"k": "2", "j": "0"}}, {Name: "e"}},
		elems("f"),
	}[g.r.Pick(8, 6, 6, 2, 2, 2, 1, 2)]
	k := g.r.Intn(len(full) + 1)
	if g.r.Chance(1, 2) {
		k = 1
		if len(full) == 1 {
			k = 0
		}
	}
	return full[:k], full[k:]
}

func (g *gen) prefix(pe []ElemJ) *PathJ {
	p := &PathJ{Target: g.target(), Elems: pe}
	if g.r.Chance(1, 12) {
		p.Origin = "o"
	}
	return p
}

func (g *gen) update() UpdJ {
	_, s := g.leafSplit()
	u := UpdJ{Path: &PathJ{Elems: s}, Val: g.val()}
	if g.r.Chance(1, 10) {
		u.Dup = 1
	}
	return u
}

func (g *gen) deletePath() (prefixElems []ElemJ, p PathJ) {
	q := [][]string{{"a", "b"}, {"a", "*"}, {"*"}, {"a"}, {"a", "b", "c"}, {"d", "*"}, {"a", "c"}, {"*", "b"}, {"f"}, {"d", "1", "e"}, {"a", "b", "*"}}[g.r.Pick(8, 6, 3, 5, 2, 2, 4, 2, 2, 1, 2)]
	k := 0
	if len(q) > 1 && q[0] != "*" && g.r.Chance(1, 2) {
		k = 1
	}
	return elems(q[:k]...), PathJ{Elems: elems(q[k:]...)}
}

func (g *gen) notification() *NotiJ {
	switch g.r.Pick(40, 14, 8, 8, 1, 3, 3) {
	case 0: // single update
		pe, se := g.leafSplit()
		n := &NotiJ{TS: g.ts(), Prefix: g.prefix(pe), Upd: []UpdJ{{Path: &PathJ{Elems: se}, Val: g.val()}}}
		if g.r.Chance(1, 10) {
			n.Upd[0].Dup = uint32(1 + g.r.Intn(2))
		}
		if g.r.Chance(1, 25) && len(pe) == 0 { // deprecated element form
			names := []string{}
			for _, x := range se {
				names = append(names, x.Name)
			}
			n.Upd[0].Path = &PathJ{Element: names}
		}
		if g.r.Chance(1, 30) { // origin in the update path
			n.Upd[0].Path.Origin = "o"
		}
		if g.r.Chance(1, 25) { // a target on the update path: legal, ignored
			n.Upd[0].Path.Target = []string{"t", "u", "x"}[g.r.Intn(3)]
		}
		if g.r.Chance(1, 40) { // no target in the prefix, one on the path: still "no target"
			n.Prefix.Target = ""
			n.Upd[0].Path.Target = "t"
		}
		return n
	case 1: // single delete
		pe, p := g.deletePath()
		return &NotiJ{TS: g.ts(), Prefix: g.prefix(pe), Del: []PathJ{p}}
	case 2: // atomic container at a/b or a/c (or deeper, colliding)
		at := [][]string{{"a", "b"}, {"a", "c"}, {"a"}, {"g"}}[g.r.Pick(5, 3, 1, 2)]
		n := &NotiJ{TS: g.ts(), Prefix: g.prefix(elems(at...)), Atomic: true}
		k := 1 + g.r.Intn(2)
		for i := 0; i < k; i++ {
			n.Upd = append(n.Upd, UpdJ{Path: pth([]string{"x", "y"}[i]), Val: g.val()})
		}
		if g.r.Chance(1, 15) {
			n.Del = []PathJ{*pth("z")}
		}
		if g.r.Chance(1, 15) {
			n.Upd = nil
		}
		return n
	case 3: // multi
		if g.r.Chance(1, 8) { // many units: 5..12 updates of distinct and repeated leaves, then deletes
			n := &NotiJ{TS: g.ts(), Prefix: g.prefix(elems("a"))}
			for i, k := 0, 5+g.r.Intn(8); i < k; i++ {
				n.Upd = append(n.Upd, UpdJ{Path: pth([]string{"b", "c", "m1", "m2", "m3", "m4", "m5"}[g.r.Intn(7)]), Val: g.val()})
			}
			for i, k := 0, g.r.Intn(3); i < k; i++ {
				n.Del = append(n.Del, *pth([]string{"b", "m1", "*"}[g.r.Intn(3)]))
			}
			return n
		}
		n := &NotiJ{TS: g.ts(), Prefix: g.prefix(nil)}
		if g.r.Chance(1, 10) { // metadata first, data after it in one notification
			n.Upd = append(n.Upd, UpdJ{Path: pth("meta", "foo"), Val: ival(1)})
		}
		if g.r.Chance(1, 3) && len(n.Upd) == 0 {
			n.Prefix.Elems = elems("a")
		}
		nu, nd := g.r.Intn(4), g.r.Intn(3)
		if nu+nd < 2 {
			nu = 2
		}
		for i := 0; i < nu; i++ {
			if len(n.Prefix.Elems) > 0 {
				n.Upd = append(n.Upd, UpdJ{Path: pth([]string{"b", "c"}[g.r.Intn(2)]), Val: g.val()})
			} else {
				pe, se := g.leafSplit()
				n.Upd = append(n.Upd, UpdJ{Path: &PathJ{Elems: append(append([]ElemJ{}, pe...), se...)}, Val: g.val()})
			}
		}
		for i := 0; i < nd; i++ {
			if len(n.Prefix.Elems) > 0 {
				n.Del = append(n.Del, *pth([]string{"b", "c", "*"}[g.r.Intn(3)]))
			} else {
				pe, p := g.deletePath()
				n.Del = append(n.Del, PathJ{Elems: append(append([]ElemJ{}, pe...), p.Elems...)})
			}
		}
		return n
	case 4: // empty
		return &NotiJ{TS: g.ts(), Prefix: g.prefix(nil)}
	case 5: // metadata written from outside
		k := []string{"sync", "connected", "connectedAddress", "foo", "targetLeaves"}[g.r.Pick(3, 3, 3, 3, 1)]
		var v *ValJ
		switch k {
		case "sync", "connected":
			v = &ValJ{K: "bool", B: g.r.Chance(1, 2)}
			if g.r.Chance(1, 5) {
				v = ival(1)
			}
		case "connectedAddress":
			v = sval("x")
		case "targetLeaves": // an integer leaf only takes integers (and is then refused as stale / replaced by refreshes)
			v = sval("x")
		default:
			v = g.val()
		}
		if g.r.Chance(1, 8) {
			v = nil
		}
		return &NotiJ{TS: g.ts(), Prefix: g.prefix(nil), Upd: []UpdJ{{Path: pth("meta", k), Val: v}}}
	default: // unknown target / no prefix / empty or bare-meta index path
		switch g.r.Intn(5) {
		case 0:
			return updN(g.ts(), pfx("nosuch", "a"), pth("b"), ival(1))
		case 1:
			n := updN(g.ts(), pfx("t", "a"), pth("b"), ival(1))
			n.Prefix = nil
			return n
		case 2: // empty index path
			return &NotiJ{TS: g.ts(), Prefix: g.prefix(nil), Upd: []UpdJ{{Path: nil, Val: ival(1)}}}
		case 3: // the path [meta] alone
			return &NotiJ{TS: g.ts(), Prefix: g.prefix(nil), Upd: []UpdJ{{Path: pth("meta"), Val: ival(1)}}}
		default: // delete with an empty path: everything older goes
			return &NotiJ{TS: g.ts(), Prefix: g.prefix(nil), Del: []PathJ{{}}}
		}
	}
}

// randomCase: a history of GnmiUpdate calls with occasional Reset / Remove /
// Add (C02) plus Sync / Connect / ConnectError / UpdateMetadata (C03).
func randomCase(r *vh.Rand, prop string, maxOps int) *Case {
	g := &gen{r: r, prop: prop, targets: []string{"t"}}
	c := &Case{Family: "random"}
	if prop == "c03" || r.Chance(1, 4) {
		g.targets = []string{"t", "u"}
	}
	c.Targets = g.targets
	c.Cfg.EventDriven = r.Chance(2, 3)
	if r.Chance(1, 2) {
		c.Cfg.Thr = 2
	}
	n := 2 + r.Intn(maxOps-1)
	// the clock does not run backwards across metadata refreshes (see CacheModel.v)
	clock := int64(0)
	mono := func() int64 {
		clock += int64(r.Intn(2))
		return clock
	}
	for i := 0; i < n; i++ {
		wOther := 3
		if prop == "c03" {
			wOther = 8
		}
		switch r.Pick(60, wOther) {
		case 0:
			c.Ops = append(c.Ops, Op{K: "upd", Now: g.now(), N: g.notification()})
		default:
			kinds := []string{"reset", "remove", "add"}
			if prop == "c03" {
				kinds = []string{"reset", "reset", "remove", "add", "sync", "connect", "connecterror", "updatemeta"}
			}
			k := kinds[r.Intn(len(kinds))]
			o := Op{K: k, Now: mono(), Tgt: g.target()}
			if k == "add" && !r.Chance(1, 10) {
				// mostly add a target that is absent (removed before, or new);
				// Add on a live target silently empties it (C03 class 4)
				o.Tgt = "w"
				for j := len(c.Ops) - 1; j >= 0; j-- {
					if c.Ops[j].K == "remove" {
						o.Tgt = c.Ops[j].Tgt
						break
					}
				}
				live := false
				for _, t := range c.Targets {
					live = live || t == o.Tgt
				}
				for _, p := range c.Ops {
					if p.Tgt == o.Tgt && p.K == "add" {
						live = true
					}
					if p.Tgt == o.Tgt && p.K == "remove" {
						live = false
					}
				}
				if live {
					o.K = "reset"
				}
			}
			if k == "connecterror" {
				o.Msg = "boom"
			}
			if k == "updatemeta" {
				o.Tgt = ""
			}
			c.Ops = append(c.Ops, o)
		}
	}
	return c
}

// futureCase: threshold 2, one or two leaves, timestamps spread so that the
// three inequalities of the guard are each crossed by one.
func futureCase(r *vh.Rand) *Case {
	c := &Case{Family: "future", Targets: []string{"t"}, Cfg: CfgJ{Thr: []int64{2, 2, 3, -1}[r.Intn(4)], EventDriven: r.Chance(1, 2)}}
	n := 3 + r.Intn(8)
	for i := 0; i < n; i++ {
		ts := int64(r.Intn(10)) - 1
		now := int64(r.Intn(7))
		leaf := []string{"b", "c"}[r.Pick(3, 1)]
		var nn *NotiJ
		switch r.Pick(12, 2, 1, 1) {
		case 0:
			nn = updN(ts, pfx("t", "a"), pth(leaf), ival(int64(1+r.Intn(2))))
		case 1:
			nn = delN(ts, pfx("t", "a"), pth(leaf))
		case 2: // deprecated element form: does not move the latest timestamp
			nn = updN(ts, &PathJ{Target: "t"}, &PathJ{Element: []string{"a", leaf}}, ival(1))
		default: // multi: latest moves only after the whole notification
			nn = &NotiJ{TS: ts, Prefix: pfx("t", "a"), Upd: []UpdJ{{Path: pth("b"), Val: ival(int64(1 + r.Intn(2)))}, {Path: pth("c"), Val: ival(int64(1 + r.Intn(2)))}}}
		}
		c.Ops = append(c.Ops, Op{K: "upd", Now: now, N: nn})
	}
	return c
}

func describeTier(o vh.Opts) string { return fmt.Sprintf("tier=%s seed=%d", o.Tier, o.Seed) }

// ---------------------------------------------------------------------------
// look-alike values: per leaf, successive updates drawn from one small pool of
// values that are easily confused by a value comparison

func dec(d int64, p uint32) ValJ { return ValJ{K: "decimal", I: d, Prec: p} }
func ll(vs ...ValJ) ValJ         { return ValJ{K: "leaflist", L: vs} }
func f32(b uint32) ValJ          { return ValJ{K: "float", Bits: uint64(b)} }
func f64(b uint64) ValJ          { return ValJ{K: "double", Bits: b} }

var lookAlike = [][]ValJ{
	// decimals: re-scaled encodings of one number, same digits other precision
	{dec(150, 2), dec(15, 1), dec(1500, 3), dec(150, 1), dec(15, 2)},
	// decimals whose digits collapse in float32 / float64
	{dec(123456789, 2), dec(123456790, 2), dec(16777217, 0), dec(16777216, 0), dec(9007199254740993, 0), dec(9007199254740992, 0)},
	{dec(0, 0), dec(0, 3), dec(-0, 1), dec(1, 0), dec(-1, 0)},
	// leaf-lists: prefixes of each other, same length differing in the last element, empty, nested
	{ll(), ll(*ival(1)), ll(*ival(1), *ival(2)), ll(*ival(1), *ival(3)), ll(*ival(1), *ival(2), *ival(3)), ll(*sval("1")), ll(ll(*ival(1))), ll(dec(15, 1)), ll(dec(150, 2))},
	// the same number in different arms
	{*ival(1), {K: "uint", I: 1}, *sval("1"), {K: "bytes", S: "1"}, {K: "json", S: "1"}, {K: "jsonietf", S: "1"}, {K: "ascii", S: "1"}, {K: "protobytes", S: "1"}, {K: "bool", B: true}, dec(1, 0), f32(0x3f800000), f64(0x3ff0000000000000), ll(*ival(1))},
	// float vs double of 1.5, +0 / -0, NaN (two payloads), a value that differs in the last bit
	{f32(0x3fc00000), f64(0x3ff8000000000000), f32(0x3fc00001), f64(0x3ff8000000000001)},
	{f32(0), f32(0x80000000), f64(0), f64(0x8000000000000000), f32(0x7fc00000), f32(0x7fc00001), f64(0x7ff8000000000000), f64(0x7ff8000000000001)},
	// strings / bytes that differ in case, trailing space, emptiness
	{*sval(""), *sval(" "), *sval("a"), *sval("A"), *sval("a "), {K: "bytes", S: ""}, {K: "bytes", S: "a"}, {K: "none"}, {K: "any"}},
}

// valueCase: one or two leaves, 3..9 updates each from one pool, timestamps
// non-decreasing (so equal timestamps meet proto.Equal, later ones value.Equal).
func valueCase(r *vh.Rand) *Case {
	c := &Case{Family: "values", Targets: []string{"t"}, Cfg: CfgJ{EventDriven: r.Chance(4, 5)}}
	pool := lookAlike[r.Intn(len(lookAlike))]
	n := 3 + r.Intn(7)
	ts := int64(1)
	for i := 0; i < n; i++ {
		ts += int64(r.Pick(2, 3))
		if r.Chance(1, 12) {
			pool = lookAlike[r.Intn(len(lookAlike))]
		}
		v := pool[r.Intn(len(pool))]
		leaf := []string{"b", "c"}[r.Pick(4, 1)]
		switch r.Pick(14, 1, 1) {
		case 0:
			c.Ops = append(c.Ops, Op{K: "upd", N: updN(ts, pfx("t", "a"), pth(leaf), &v)})
		case 1:
			c.Ops = append(c.Ops, Op{K: "upd", N: delN(ts, pfx("t", "a"), pth(leaf))})
		default: // the same pool inside an atomic container
			w := pool[r.Intn(len(pool))]
			c.Ops = append(c.Ops, Op{K: "upd", N: &NotiJ{TS: ts, Prefix: pfx("t", "g"), Atomic: true, Upd: []UpdJ{{Path: pth("x"), Val: &v}, {Path: pth("y"), Val: &w}}}})
		}
	}
	return c
}

// mixedCase: stored updates whose prefix and path use different encodings
// (elem vs the deprecated element), with siblings, then subtree / wildcard /
// leaf deletes and Reset.
func mixedCase(r *vh.Rand) *Case {
	c := &Case{Family: "mixed-encoding", Targets: []string{"t"}, Cfg: CfgJ{EventDriven: r.Chance(1, 2)}}
	k := 2 + r.Intn(4)
	for i := 0; i < k; i++ {
		leaf := []string{"b", "c", "d"}[r.Intn(3)]
		ts := int64(1 + r.Intn(3))
		v := ival(int64(1 + r.Intn(2)))
		var n *NotiJ
		switch r.Pick(3, 3, 2, 1, 1) {
		case 0: // elem prefix, element path
			n = updN(ts, pfx("t", "a"), &PathJ{Element: []string{leaf}}, v)
		case 1: // element prefix, elem path
			n = updN(ts, &PathJ{Target: "t", Element: []string{"a"}}, pth(leaf), v)
		case 2: // both elem
			n = updN(ts, pfx("t", "a"), pth(leaf), v)
		case 3: // both element
			n = updN(ts, &PathJ{Target: "t", Element: []string{"a"}}, &PathJ{Element: []string{leaf}}, v)
		default: // two-level element path under an elem prefix
			n = updN(ts, pfx("t", "a"), &PathJ{Element: []string{leaf, "x"}}, v)
		}
		c.Ops = append(c.Ops, Op{K: "upd", N: n})
	}
	if r.Chance(1, 3) {
		c.Ops = append(c.Ops, Op{K: "upd", N: updN(2, pfx("t"), pth("q"), ival(1))})
	}
	nd := 1 + r.Intn(3)
	for i := 0; i < nd; i++ {
		ts := int64(3 + r.Intn(6))
		if r.Chance(1, 6) {
			c.Ops = append(c.Ops, Op{K: "reset", Tgt: "t", Now: ts})
			continue
		}
		q := [][]string{{"a", "b"}, {"a", "c"}, {"a", "*"}, {"a"}, {"*"}, {"a", "b", "x"}}[r.Pick(4, 3, 2, 2, 1, 1)]
		d := delN(ts, pfx("t"), pth(q...))
		if r.Chance(1, 4) {
			d = delN(ts, pfx("t"), &PathJ{Element: q})
		}
		c.Ops = append(c.Ops, Op{K: "upd", N: d})
		if r.Chance(1, 3) {
			c.Ops = append(c.Ops, Op{K: "upd", N: updN(ts+1, pfx("t", "a"), &PathJ{Element: []string{"b"}}, ival(3))})
		}
	}
	return c
}

// ---------------------------------------------------------------------------
// C02: index paths with literal "*" elements and other glob-looking names
// (a list key VALUE "*", an element NAMED "*"): Add stores them as ordinary
// nodes; only Query and the delete family read "*" as a glob.

func starCase(r *vh.Rand) *Case {
	c := &Case{Family: "star-names", Targets: []string{"t"}, Cfg: CfgJ{EventDriven: r.Chance(1, 2)}}
	if r.Chance(1, 3) {
		c.Cfg.Thr = 2
	}
	type lf struct {
		pe, se []ElemJ
	}
	leaves := []lf{
		{elems("a"), elems("*")}, // element named "*"
		{elems("a"), elems("b")}, // its sibling
		{nil, []ElemJ{{Name: "i", Keys: map[string]string{"name": "*"}}, {Name: "s"}}}, // key value "*": index i/*/s
		{nil, []ElemJ{{Name: "i", Keys: map[string]string{"name": "e0"}}, {Name: "s"}}},
		{elems("*"), elems("b")},      // first element "*"
		{elems("a"), elems("*", "c")}, // "*" in the middle
		{elems("a"), elems("**")},
		{elems("a"), elems("?")},
	}
	n := 3 + r.Intn(9)
	for i := 0; i < n; i++ {
		l := leaves[r.Pick(6, 3, 5, 2, 3, 3, 1, 1)]
		ts := int64(1 + r.Intn(4))
		now := []int64{0, 1, 3}[r.Intn(3)]
		switch r.Pick(12, 3) {
		case 0:
			c.Ops = append(c.Ops, Op{K: "upd", Now: now, N: &NotiJ{TS: ts, Prefix: &PathJ{Target: "t", Elems: l.pe},
				Upd: []UpdJ{{Path: &PathJ{Elems: l.se}, Val: ival(int64(1 + r.Intn(2)))}}}})
		default:
			q := [][]string{{"a", "*"}, {"a", "b"}, {"*"}, {"i", "*", "s"}, {"i", "e0"}, {"*", "b"}, {"a", "*", "c"}, {"a"}}[r.Intn(8)]
			c.Ops = append(c.Ops, Op{K: "upd", Now: now, N: delN(ts, pfx("t"), pth(q...))})
		}
	}
	return c
}

// deepGlobCase: leaves at different depths under one prefix (so that some are
// SHORTER than the delete path), deleted through paths with one or more globs
// followed by further elements, or with a glob directly below a leaf; then
// older updates to every leaf (a leaf the delete did not match must still
// refuse them as stale).
func deepGlobCase(r *vh.Rand) *Case {
	c := &Case{Family: "deep-glob", Targets: []string{"t"}, Cfg: CfgJ{EventDriven: r.Chance(1, 2)}}
	leaves := [][]string{{"if", "mtu"}, {"if", "e0", "in"}, {"if", "e0", "st", "in"}, {"if", "e1", "in"}, {"if", "e1", "out"},
		{"x"}, {"sys", "up"}, {"if", "e0", "st", "q", "in"}}
	dels := [][]string{{"if", "*", "*", "in"}, {"if", "*", "*"}, {"*", "*", "*"}, {"*", "*", "*", "*"}, {"if", "mtu", "*", "in"},
		{"if", "*", "in"}, {"if", "*"}, {"*", "*"}, {"if", "e0", "*", "in"}, {"*", "mtu"}, {"if", "*", "*", "*", "in"},
		{"*", "*", "in"}, {"x", "*"}, {"x", "*", "*"}, {"*", "e0", "*"}, {"if", "*", "st", "*"}, {"*"}, {"if", "mtu", "*"}}
	upd := func(l []string, ts int64) Op {
		k := r.Intn(len(l))
		return Op{K: "upd", N: updN(ts, pfx("t", l[:k]...), pth(l[k:]...), ival(int64(1+r.Intn(2))))}
	}
	var stored [][]string
	for i, k := 0, 3+r.Intn(4); i < k; i++ {
		l := leaves[r.Intn(len(leaves))]
		stored = append(stored, l)
		c.Ops = append(c.Ops, upd(l, int64(2+r.Intn(2))))
	}
	for i, k := 0, 1+r.Intn(3); i < k; i++ {
		q := dels[r.Intn(len(dels))]
		ts := int64(1 + r.Intn(6))
		kk := 0
		if q[0] != "*" && r.Chance(1, 2) {
			kk = 1
		}
		c.Ops = append(c.Ops, Op{K: "upd", N: delN(ts, pfx("t", q[:kk]...), pth(q[kk:]...))})
		// out-of-order updates to what was stored: stale unless the leaf is really gone
		for _, l := range stored {
			if r.Chance(1, 2) {
				c.Ops = append(c.Ops, upd(l, int64(1+r.Intn(2))))
			}
		}
	}
	return c
}

// handleCase (C03): writes through the exported Target handle
// (Cache.GetTarget(x).GnmiUpdate) next to writes through Cache.GnmiUpdate, over
// two targets, with prefixes that name the handle's target, name no target, or
// are nil, and with ONE prefix object -- or one whole notification object --
// reused by the caller across notifications and across targets.
func handleCase(r *vh.Rand) *Case {
	c := &Case{Family: "handle", Targets: []string{"t", "u"}, Cfg: CfgJ{EventDriven: r.Chance(1, 2)}}
	namedOnly := r.Chance(1, 3)
	ts := int64(0)
	n := 3 + r.Intn(7)
	for i := 0; i < n; i++ {
		ts += int64(r.Intn(2))
		tgt := []string{"t", "u"}[r.Intn(2)]
		leaf := []string{"b", "c"}[r.Intn(2)]
		var nn *NotiJ
		w := []int{5, 4, 3, 1, 2, 1}
		if namedOnly { // no target-less write: K_P follows the whole history
			w = []int{5, 0, 0, 0, 2, 1}
		}
		switch r.Pick(w...) {
		case 0: // prefix names the handle's target
			nn = updN(ts, pfx(tgt, "a"), pth(leaf), ival(int64(1+r.Intn(2))))
		case 1: // ONE target-less prefix object shared by every such notification, whatever the handle
			nn = updN(ts, &PathJ{Elems: elems("a")}, pth("k", leaf), ival(int64(1+r.Intn(2))))
			nn.PfxID, nn.PfxSpare = 7, r.Intn(2)
		case 2: // a target-less prefix of its own
			nn = updN(ts, &PathJ{Elems: elems("a")}, pth("k", leaf), ival(int64(1+r.Intn(2))))
		case 3: // nil prefix: the first path element is taken for the target name
			nn = updN(ts, nil, pth("zz", "a", leaf), ival(1))
		case 4: // a delete through the handle
			nn = delN(ts+1, pfx(tgt, "a"), pth([]string{leaf, "*"}[r.Intn(2)]))
		default: // a multi notification through the handle
			nn = &NotiJ{TS: ts, Prefix: pfx(tgt, "a"), Upd: []UpdJ{{Path: pth("b"), Val: ival(3)}, {Path: pth("c"), Val: ival(3)}}}
		}
		o := Op{K: "updt", Tgt: tgt, N: nn}
		if r.Chance(1, 4) { // the same write through Cache.GnmiUpdate instead (routes by prefix target)
			o = Op{K: "upd", N: nn}
		}
		c.Ops = append(c.Ops, o)
		if r.Chance(1, 5) { // the caller sends the very same notification object again, possibly to the other handle
			o2 := o
			o.NID, o2.NID = 100+i, 100+i
			c.Ops[len(c.Ops)-1] = o
			// (only a target-less notification goes to the other handle: one that names a target and is
			// written through another target's handle is plain caller error, stored there, announced here)
			if o2.K == "updt" && (nn.Prefix == nil || nn.Prefix.Target == "") && r.Chance(1, 2) {
				o2.Tgt = []string{"t", "u"}[r.Intn(2)]
			}
			c.Ops = append(c.Ops, o2)
		}
	}
	return c
}

// extremeTsCase: negative (pre-epoch) timestamps and timestamps next to
// MinInt64 / MaxInt64, in pairs on one leaf: every comparison of the
// discipline between timestamps more than 2^63 apart.
func extremeTsCase(r *vh.Rand) *Case {
	c := &Case{Family: "extreme-ts", Targets: []string{"t"}, Cfg: CfgJ{EventDriven: r.Chance(1, 2)}}
	if r.Chance(1, 2) {
		c.Cfg.Thr = 2
	}
	const maxI, minI = int64(9223372036854775807), int64(-9223372036854775808)
	pool := []int64{maxI, maxI - 1, maxI - 1000, minI, minI + 1, minI + 1000, -(1 << 62), 1 << 62, -1, 0, 1, -1700000000000000000, 1700000000000000000}
	if r.Chance(1, 6) {
		// scripted: a leaf at MinInt64, the latest timestamp made positive through a sibling, then the leaf
		// again just above MinInt64 with the clock just below it: ahead of the clock by more than the
		// threshold, behind the latest by more than 2^63 (time.Sub saturates; an int64 subtraction wraps)
		c.Cfg.Thr = 2
		c.Ops = append(c.Ops,
			Op{K: "upd", Now: 0, N: updN(minI, pfx("t", "a"), pth("b"), ival(1))},
			Op{K: "upd", Now: 1700000000000000000, N: updN(1700000000000000000+int64(r.Intn(2)), pfx("t", "a"), pth("c"), ival(1))},
			Op{K: "upd", Now: minI + 1, N: updN(minI+1000, pfx("t", "a"), pth("b"), ival(2))},
			Op{K: "upd", Now: maxI - 5, N: updN(maxI, pfx("t", "a"), pth("c"), ival(2))},
			Op{K: "upd", Now: 0, N: updN(minI+1000, pfx("t", "a"), pth("b"), ival(2))})
	}
	n := 3 + r.Intn(7)
	for i := 0; i < n; i++ {
		ts := pool[r.Intn(len(pool))]
		leaf := []string{"b", "c"}[r.Pick(4, 1)]
		now := []int64{0, 3, -5, 1700000000000000000, minI + 1, minI + 999, maxI - 5}[r.Pick(4, 2, 1, 1, 2, 1, 1)]
		switch r.Pick(10, 3, 1) {
		case 0:
			c.Ops = append(c.Ops, Op{K: "upd", Now: now, N: updN(ts, pfx("t", "a"), pth(leaf), ival(int64(1+r.Intn(2))))})
		case 1:
			c.Ops = append(c.Ops, Op{K: "upd", Now: now, N: delN(ts, pfx("t", "a"), pth([]string{leaf, "*"}[r.Intn(2)]))})
		default:
			c.Ops = append(c.Ops, Op{K: "upd", Now: now, N: &NotiJ{TS: ts, Prefix: pfx("t", "a"), Upd: []UpdJ{{Path: pth("b"), Val: ival(1)}, {Path: pth("c"), Val: ival(2)}}}})
		}
	}
	return c
}

// subscribedCase (C03): the change feed is consumed, beside the recording
// callback, by a real subscribe.Server with one or two STREAM subscribers whose
// Send is held while several updates of one leaf arrive (they coalesce: duplicate
// count > 0) and then released; identical re-deliveries follow.
func subscribedCase(r *vh.Rand) *Case {
	c := &Case{Family: "subscribed", Targets: []string{"t"}, Subs: 1 + r.Intn(2), Cfg: CfgJ{EventDriven: r.Chance(1, 2)}}
	ts := int64(1)
	upd := func(leaf string) Op {
		ts += int64(r.Intn(2))
		return Op{K: "upd", N: updN(ts, pfx("t", "a"), pth(leaf), ival(int64(1+r.Intn(3))))}
	}
	for i, k := 0, r.Intn(3); i < k; i++ {
		c.Ops = append(c.Ops, upd([]string{"b", "c"}[r.Intn(2)]))
	}
	cycles := 1 + r.Intn(2)
	for cy := 0; cy < cycles; cy++ {
		c.Ops = append(c.Ops, Op{K: "hold"})
		var last Op
		for i, k := 0, 2+r.Intn(4); i < k; i++ {
			last = upd([]string{"b", "b", "c"}[r.Intn(3)])
			c.Ops = append(c.Ops, last)
		}
		if r.Chance(1, 4) {
			c.Ops = append(c.Ops, Op{K: "upd", N: delN(ts+1, pfx("t", "a"), pth("c"))})
		}
		c.Ops = append(c.Ops, Op{K: "release"})
		// the last notification again, unchanged: identical at the same timestamp
		c.Ops = append(c.Ops, Op{K: "upd", N: last.N})
		if r.Chance(1, 2) {
			c.Ops = append(c.Ops, upd("b"))
		}
	}
	return c
}

func checkLib() string {
	if prop == "c03" {
		return "Cache.C03Check"
	}
	return ""
}

func ruleText() string {
	if prop == "c03" {
		return c03Rule
	}
	return "corpus cases; every history of 1..D calls (D=3 quick, 4 thorough) over {update v in {1,2} at ts in {1,2,3}, delete at ts in {1,2,3}} on one leaf, " +
		"event-driven on; seeded random histories of 2..25 calls (single/multi/atomic/delete/empty notifications over index paths a/b a/c a/b/c a d[k]/e f with prefix/path splits, " +
		"timestamps mostly in 1..4, clock in {0,1,3}, threshold in {0,2}, occasional Reset/Remove/Add, metadata paths, unknown targets); " +
		"future-guard histories (threshold 2/3/-1, ts in -1..8, clock in 0..6); look-alike value histories (per leaf, successive updates from one pool of easily confused values of every TypedValue arm, non-decreasing timestamps); mixed elem/element encodings with siblings followed by deletes and Reset; index paths with literal \"*\" elements, key values \"*\" and other glob-looking names updated repeatedly and deleted by glob; timestamps next to MinInt64/MaxInt64 and negative ones in pairs on one leaf; two-writer histories (the first writer parked inside its critical section at the cache.Now override or in the callback, the second issued from another goroutine; expected [first; second]). distinct = distinct (config, targets, calls); " +
		"non-trivial = some call was rejected as stale/future (also inside a multi notification) or some delete removed a leaf"
}

const c03Rule = "corpus cases (witnesses of the two defects and of the path-origin finding); every history of 1..D calls (D=3 quick, 4 thorough) over an alphabet of 13 calls on target t " +
	"(scalar a/b with two values and two timestamps, scalar a/c, atomic container at a/b, multi update+delete (2+1 and 1+1), deletes a/b a/* *, Reset, Remove, Add), event-driven on; " +
	"seeded random histories of 2..25 calls over two targets (as C02, plus Reset/Remove/Add/Sync/Connect/ConnectError/UpdateMetadata under a non-decreasing clock); " +
	"aliasing histories (2..4 leaves written through one shared prefix object with 1..3 spare slots in every slice-typed field, in the elem, the deprecated element and the mixed encodings, singly, by one multi-update or as ONE atomic container (a quarter of the cases), then subtree / wildcard / single / double deletes, Reset, Remove+Add); two-writer histories; " +
	"atomic<->scalar histories on one index path with equal and different first values, event-driven on and off; " +
	"look-alike value histories (per leaf, successive updates from one pool of easily confused values: re-scaled decimals, decimals collapsing in float32/float64, leaf-lists that are prefixes of each other / differ in the last element / nested, the same number as int/uint/string/bytes/json/ascii/decimal/float/double, float vs double, +0/-0, NaN, near-equal strings); " +
	"mixed elem/element encodings of prefix and path with siblings, then subtree / wildcard / leaf deletes and Reset; " +
	"writes through the exported Target handle (Cache.GetTarget(x).GnmiUpdate) mixed with Cache.GnmiUpdate over two targets, with prefixes naming the handle target / no target / nil, one prefix object or one whole notification object reused across notifications and targets; " +
	"extreme timestamps; histories whose feed is also consumed by a real subscribe.Server with 1-2 gated STREAM subscribers (held while updates of one leaf coalesce, released, identical re-delivery), inputs compared with their deep copies after every call and after the release. " +
	"distinct = distinct (config, targets, calls); non-trivial = the callback received at least one update and one delete notification, or an accepted update was withheld"

func generate(e *emitter, o vh.Opts) {
	if prop == "c03" {
		generateC03(e, o)
		return
	}
	depth := 3
	if o.Thorough() {
		depth = 4
	}
	al := c02Alphabet()
	for d := 1; d <= depth; d++ {
		exhaustive(e, fmt.Sprintf("exhaustive-%d", d), al, d, CfgJ{EventDriven: true})
	}
	e.meta.Extra["exhaustive_alphabet_size"] = len(al)
	e.meta.Extra["exhaustive_depth"] = depth
	r := vh.NewRand(o.Seed)
	nrand, nfut := 2500, 1200
	if o.Thorough() {
		nrand, nfut = 40000, 15000
	}
	for i := 0; i < nrand; i++ {
		e.add(randomCase(r.Fork(), "c02", 25))
	}
	for i := 0; i < nfut; i++ {
		e.add(futureCase(r.Fork()))
	}
	nval, nmix := 700, 200
	nstar, next := 500, 400
	if o.Thorough() {
		nval, nmix = 10000, 3000
		nstar, next = 8000, 6000
	}
	for i := 0; i < nstar; i++ {
		e.add(starCase(r.Fork()))
	}
	npair, ndeep := 300, 500
	if o.Thorough() {
		npair, ndeep = 3000, 8000
	}
	for i := 0; i < npair; i++ {
		e.add(pairCase(r.Fork()))
	}
	for i := 0; i < ndeep; i++ {
		e.add(deepGlobCase(r.Fork()))
	}
	for i := 0; i < next; i++ {
		e.add(extremeTsCase(r.Fork()))
	}
	for i := 0; i < nval; i++ {
		e.add(valueCase(r.Fork()))
	}
	for i := 0; i < nmix; i++ {
		e.add(mixedCase(r.Fork()))
	}
}

// c03Alphabet: the calls of the exhaustive family.
func c03Alphabet() []Op {
	at := &NotiJ{TS: 2, Prefix: pfx("t", "a", "b"), Atomic: true, Upd: []UpdJ{{Path: pth("x"), Val: ival(1)}, {Path: pth("y"), Val: ival(2)}}}
	multi := &NotiJ{TS: 3, Prefix: pfx("t", "a"), Upd: []UpdJ{{Path: pth("b"), Val: ival(1)}, {Path: pth("c"), Val: ival(1)}}, Del: []PathJ{*pth("b")}}
	return []Op{
		{K: "upd", N: updN(1, pfx("t", "a"), pth("b"), ival(1))},
		{K: "upd", N: updN(2, pfx("t", "a"), pth("b"), ival(1))},
		{K: "upd", N: updN(2, pfx("t", "a"), pth("b"), ival(2))},
		{K: "upd", N: updN(1, pfx("t", "a"), pth("c"), ival(1))},
		{K: "upd", N: at},
		{K: "upd", N: multi},
		// the dispatch boundary: exactly one update and one delete (of another, existing leaf)
		{K: "upd", N: &NotiJ{TS: 3, Prefix: pfx("t", "a"), Upd: []UpdJ{{Path: pth("c"), Val: ival(2)}}, Del: []PathJ{*pth("b")}}},
		{K: "upd", N: delN(2, pfx("t", "a"), pth("b"))},
		{K: "upd", N: delN(3, pfx("t", "a"), pth("*"))},
		{K: "upd", N: delN(9, pfx("t"), pth("*"))},
		{K: "reset", Tgt: "t"},
		{K: "remove", Tgt: "t"},
		{K: "add", Tgt: "t"},
	}
}

// aliasCase: leaves written through one shared prefix object whose Elem
// slice has spare capacity, then deletes that remove several of them at once.
func aliasCase(r *vh.Rand) *Case {
	c := &Case{Family: "alias", Targets: []string{"t"}, Cfg: CfgJ{EventDriven: r.Chance(1, 2)}}
	pe := [][]string{{"a"}, {"a", "b"}}[r.Intn(2)]
	spare := 1 + r.Intn(3)
	// encoding of prefix / path: 0 elem+elem, 1 element+element (deprecated), 2 elem+element, 3 element+elem
	enc := r.Pick(4, 4, 1, 1)
	mkp := func(el bool, names ...string) *PathJ {
		if el {
			return &PathJ{Element: append([]string{}, names...)}
		}
		return &PathJ{Elems: elems(names...)}
	}
	shared := func() *PathJ {
		p := mkp(enc == 1 || enc == 3, pe...)
		p.Target = "t"
		return p
	}
	leafPath := func(names ...string) *PathJ { return mkp(enc == 1 || enc == 2, names...) }
	leaves := [][]string{{"x"}, {"y"}, {"z"}, {"x", "w"}, {"v", "w"}}
	k := 2 + r.Intn(3)
	used := map[string]bool{}
	// round 7: an ATOMIC container written through the shared prefix object (its
	// delete notification is built by the atomic branch of toDeleteNotification,
	// which hands out the stored prefix slices: an append there would land in the
	// caller's spare capacity), re-sent now and then, then deleted like the rest
	atomicVariant := r.Chance(1, 4)
	if atomicVariant {
		n := &NotiJ{TS: int64(1 + r.Intn(2)), Prefix: shared(), PfxID: 1, PfxSpare: spare, Atomic: true}
		for _, lf := range leaves[:k] {
			if used[lf[0]] {
				continue
			}
			used[lf[0]] = true
			n.Upd = append(n.Upd, UpdJ{Path: leafPath(lf...), Val: ival(int64(1 + r.Intn(2)))})
		}
		c.Ops = append(c.Ops, Op{K: "upd", N: n})
		if r.Chance(1, 3) { // the container again, newer, through the same prefix object
			m := &NotiJ{TS: n.TS + 1, Prefix: shared(), PfxID: 1, PfxSpare: spare, Atomic: true}
			m.Upd = append(m.Upd, UpdJ{Path: leafPath("x"), Val: ival(5)})
			c.Ops = append(c.Ops, Op{K: "upd", N: m})
		}
		k = 0
	}
	if !atomicVariant && r.Chance(1, 4) { // the leaves arrive in ONE multi-update notification through the shared prefix
		n := &NotiJ{TS: 1, Prefix: shared(), PfxID: 1, PfxSpare: spare}
		for _, lf := range leaves[:k] {
			if used[lf[0]] {
				continue
			}
			used[lf[0]] = true
			n.Upd = append(n.Upd, UpdJ{Path: leafPath(lf...), Val: ival(1)})
		}
		c.Ops = append(c.Ops, Op{K: "upd", N: n})
	}
	for i := 0; i < k; i++ {
		lf := leaves[r.Intn(len(leaves))]
		if used[lf[0]] {
			continue
		}
		used[lf[0]] = true
		n := updN(int64(1+r.Intn(3)), shared(), leafPath(lf...), ival(int64(1+r.Intn(2))))
		if !r.Chance(1, 6) { // now and then one leaf through its own prefix object
			n.PfxID, n.PfxSpare = 1, spare
		}
		c.Ops = append(c.Ops, Op{K: "upd", N: n})
	}
	if r.Chance(1, 3) { // a neighbour outside the shared prefix
		c.Ops = append(c.Ops, Op{K: "upd", N: updN(2, pfx("t"), pth("q"), ival(1))})
	}
	nd := 1 + r.Intn(3)
	for i := 0; i < nd; i++ {
		var q []string
		switch r.Pick(4, 3, 2, 2, 1) {
		case 0:
			q = pe
		case 1:
			q = append(append([]string{}, pe...), "*")
		case 2:
			q = []string{"*"}
		case 3:
			q = append(append([]string{}, pe...), "x")
		default:
			q = []string{"a"}
		}
		ts := int64(2 + r.Intn(8))
		switch r.Pick(10, 2, 1, 1) {
		case 1: // Reset announces one delete per root
			c.Ops = append(c.Ops, Op{K: "reset", Tgt: "t", Now: ts})
			continue
		case 2: // target delete, then the target comes back
			c.Ops = append(c.Ops, Op{K: "remove", Tgt: "t", Now: ts}, Op{K: "add", Tgt: "t"})
			continue
		case 3: // two deletes in one notification: two gnmiRemove calls
			d := delN(ts, pfx("t"), pth(q...))
			d.Del = append(d.Del, *pth("q"))
			c.Ops = append(c.Ops, Op{K: "upd", N: d})
			continue
		}
		d := delN(ts, pfx("t"), pth(q...))
		if enc == 1 && r.Chance(1, 2) {
			d = delN(ts, &PathJ{Target: "t"}, &PathJ{Element: q})
		}
		c.Ops = append(c.Ops, Op{K: "upd", N: d})
		if r.Chance(1, 3) { // re-add one leaf (the container) through the shared prefix
			n := updN(ts+1, shared(), leafPath("x"), ival(3))
			n.PfxID, n.PfxSpare = 1, spare
			n.Atomic = atomicVariant
			c.Ops = append(c.Ops, Op{K: "upd", N: n})
		}
	}
	return c
}

// pairCase: two writers of one target.  The first is parked inside its
// critical section (at the cache.Now override, which gnmiUpdate calls between
// the stale decision and the write when a threshold is configured, and which
// Reset / Sync / Connect / UpdateMetadata call when they stamp their
// notifications; or inside the SetClient callback), the second is issued from
// another goroutine.  Expected: [first; second].
func pairCase(r *vh.Rand) *Case {
	c := &Case{Family: "two-writers", Targets: []string{"t"}, Cfg: CfgJ{Thr: 2, EventDriven: r.Chance(1, 2)}}
	upd := func(leaf string, ts, v int64) *Op {
		return &Op{K: "upd", N: updN(ts, pfx("t", "a"), pth(leaf), ival(v))}
	}
	// a few leaves first; latest stays small so that the future guard is evaluated but does not fire
	c.Ops = append(c.Ops, *upd("b", 1, 1), *upd("c", 1, 1))
	if r.Chance(1, 2) {
		c.Ops = append(c.Ops, Op{K: "upd", N: updN(1, pfx("t", "r"), pth("x"), ival(1))})
	}
	n := 1 + r.Intn(3)
	ts := int64(1)
	for i := 0; i < n; i++ {
		ts++
		var a, b *Op
		park := "now"
		switch r.Pick(5, 3, 3, 2, 2, 2, 2) {
		case 0: // two updates of one existing leaf, the parked one older (C02: newest wins)
			a, b = upd("b", ts, 2), upd("b", ts+1, 3)
			ts++
		case 1: // Reset parked while it announces its first root; an update of another root meanwhile
			a = &Op{K: "reset", Tgt: "t"}
			b = &Op{K: "upd", N: updN(ts, pfx("t", []string{"r", "a"}[r.Intn(2)]), pth("n"), ival(1))}
			park = []string{"feeddel", "now", "feed"}[r.Pick(3, 1, 1)]
		case 2: // an update parked in its callback; a delete of the same subtree meanwhile
			a, b = upd("c", ts, 2), &Op{K: "upd", N: delN(ts+1, pfx("t", "a"), pth("*"))}
			park = "feed"
			ts++
		case 3: // a subtree delete parked at its first delete notification; a re-add meanwhile
			a, b = &Op{K: "upd", N: delN(ts, pfx("t"), pth("a"))}, upd("b", ts+1, 4)
			park = "feeddel"
			ts++
		case 4: // Sync / Connect / ConnectError parked in the callback for their metadata leaf; an update meanwhile
			// (they stamp their notification BEFORE entering the critical section, so the clock hook is
			// outside it; the callback is inside)
			a = &Op{K: []string{"sync", "connect", "connecterror"}[r.Intn(3)], Tgt: "t", Msg: fmt.Sprintf("boom%d", i)}
			b = upd("b", ts, 5)
			park = "feed"
		case 5: // UpdateMetadata parked; Reset meanwhile
			a, b = &Op{K: "updatemeta"}, &Op{K: "reset", Tgt: "t"}
		default: // a multi notification parked at its first callback; an update of one of its leaves meanwhile
			a = &Op{K: "upd", N: &NotiJ{TS: ts, Prefix: pfx("t", "a"), Upd: []UpdJ{{Path: pth("b"), Val: ival(6)}, {Path: pth("c"), Val: ival(6)}}, Del: []PathJ{*pth("zz")}}}
			b = upd("c", ts+1, 7)
			park = "feed"
			ts++
		}
		now := int64(ts)
		a.Now, b.Now = now, now
		c.Ops = append(c.Ops, Op{K: "pair", Now: now, A: a, B: b, Park: park})
		if r.Chance(1, 2) {
			c.Ops = append(c.Ops, *upd("b", ts+1, 1))
			ts++
		}
	}
	return c
}

// atomicScalarCase: an atomic container and a scalar on the same index path.
func atomicScalarCase(r *vh.Rand) *Case {
	c := &Case{Family: "atomic-scalar", Targets: []string{"t"}, Cfg: CfgJ{EventDriven: r.Chance(3, 4)}}
	n := 2 + r.Intn(5)
	ts := int64(1)
	for i := 0; i < n; i++ {
		ts += int64(r.Intn(2))
		v := ival(int64(1 + r.Intn(2)))
		switch r.Pick(4, 4, 1, 1) {
		case 0:
			at := &NotiJ{TS: ts, Prefix: pfx("t", "a", "b"), Atomic: true, Upd: []UpdJ{{Path: pth("x"), Val: v}}}
			if r.Chance(1, 2) {
				at.Upd = append(at.Upd, UpdJ{Path: pth("y"), Val: ival(7)})
			}
			c.Ops = append(c.Ops, Op{K: "upd", N: at})
		case 1:
			if r.Chance(1, 2) {
				c.Ops = append(c.Ops, Op{K: "upd", N: updN(ts, pfx("t", "a"), pth("b"), v)})
			} else {
				c.Ops = append(c.Ops, Op{K: "upd", N: updN(ts, pfx("t"), pth("a", "b"), v)})
			}
		case 2:
			c.Ops = append(c.Ops, Op{K: "upd", N: delN(ts+1, pfx("t", "a"), pth("*"))})
		default:
			c.Ops = append(c.Ops, Op{K: "upd", N: updN(ts, pfx("t", "a"), pth("c"), v)})
		}
	}
	return c
}

func generateC03(e *emitter, o vh.Opts) {
	depth := 3
	if o.Thorough() {
		depth = 4
	}
	al := c03Alphabet()
	for d := 1; d <= depth; d++ {
		exhaustive(e, fmt.Sprintf("exhaustive-%d", d), al, d, CfgJ{EventDriven: true})
	}
	e.meta.Extra["exhaustive_alphabet_size"] = len(al)
	e.meta.Extra["exhaustive_depth"] = depth
	r := vh.NewRand(o.Seed)
	nrand, nalias, nat := 1500, 400, 300
	if o.Thorough() {
		nrand, nalias, nat = 30000, 8000, 6000
	}
	for i := 0; i < nrand; i++ {
		e.add(randomCase(r.Fork(), "c03", 25))
	}
	for i := 0; i < nalias; i++ {
		e.add(aliasCase(r.Fork()))
	}
	for i := 0; i < nat; i++ {
		e.add(atomicScalarCase(r.Fork()))
	}
	nval, nmix := 800, 400
	nsub, next := 250, 200
	if o.Thorough() {
		nval, nmix = 12000, 6000
		nsub, next = 2500, 3000
	}
	for i := 0; i < next; i++ {
		e.add(extremeTsCase(r.Fork()))
	}
	for i := 0; i < nsub; i++ {
		e.add(subscribedCase(r.Fork()))
	}
	nh := 400
	if o.Thorough() {
		nh = 5000
	}
	for i := 0; i < nh; i++ {
		e.add(handleCase(r.Fork()))
	}
	npair, ndeep := 300, 500
	if o.Thorough() {
		npair, ndeep = 3000, 8000
	}
	for i := 0; i < npair; i++ {
		e.add(pairCase(r.Fork()))
	}
	for i := 0; i < ndeep; i++ {
		e.add(deepGlobCase(r.Fork()))
	}
	for i := 0; i < nval; i++ {
		e.add(valueCase(r.Fork()))
	}
	for i := 0; i < nmix; i++ {
		e.add(mixedCase(r.Fork()))
	}
}

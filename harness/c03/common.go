// Shared by the C02 and C03 harnesses (harness/c03/common.go is a verbatim
// copy; the two differ only in main.go's constant `prop`).
//
// Drives one real cache.Cache per case with a sequence of API calls, under a
// clock fixed per call (cache.Now is overridden), and records per call: the
// error class, the notifications handed to the SetClient callback (projected
// inside the callback), Query(target, [*]) for every target name used so far
// and whether the caller's notification still equals its deep copy.
package main

import (
	"context"
	"encoding/json"
	"flag"
	"fmt"
	"io"
	"math"
	"net"
	"os"
	"sort"
	"strings"
	"sync"
	"sync/atomic"
	"time"

	log "github.com/golang/glog"
	"github.com/openconfig/gnmi/cache"
	"github.com/openconfig/gnmi/ctree"
	"github.com/openconfig/gnmi/errlist"
	"github.com/openconfig/gnmi/subscribe"
	"github.com/openconfig/gnmi/zz_verif/vh"
	"google.golang.org/grpc"
	"google.golang.org/grpc/peer"
	"google.golang.org/protobuf/proto"
	"google.golang.org/protobuf/types/known/anypb"

	pb "github.com/openconfig/gnmi/proto/gnmi"
)

var _ = log.V

// ---------------------------------------------------------------------------
// JSON shapes

type ElemJ struct {
	Name string            `json:"n"`
	Keys map[string]string `json:"k,omitempty"`
}

type PathJ struct {
	Target  string   `json:"t,omitempty"`
	Origin  string   `json:"o,omitempty"`
	Elems   []ElemJ  `json:"e,omitempty"`
	Element []string `json:"el,omitempty"`
}

// ValJ: K is one of str int uint bool bytes json none float double decimal
// leaflist any jsonietf ascii protobytes.  Floats are IEEE-754 bit patterns.
type ValJ struct {
	K    string `json:"k"`
	S    string `json:"s,omitempty"`
	I    int64  `json:"i,omitempty"`
	B    bool   `json:"b,omitempty"`
	Bits uint64 `json:"bits,omitempty"`
	Prec uint32 `json:"prec,omitempty"`
	L    []ValJ `json:"l,omitempty"`
}

type UpdJ struct {
	Path *PathJ `json:"p,omitempty"`
	Val  *ValJ  `json:"v,omitempty"`
	Dup  uint32 `json:"d,omitempty"`
}

// NotiJ is one notification.  PfxID > 0: the prefix is the per-case shared
// *pb.Path object with that id, whose Elem slice has PfxSpare spare capacity.
type NotiJ struct {
	TS       int64   `json:"ts"`
	Prefix   *PathJ  `json:"pfx,omitempty"`
	Upd      []UpdJ  `json:"u,omitempty"`
	Del      []PathJ `json:"d,omitempty"`
	Atomic   bool    `json:"a,omitempty"`
	PfxID    int     `json:"pid,omitempty"`
	PfxSpare int     `json:"psp,omitempty"`
}

// Op kinds: upd reset remove add sync connect connecterror updatemeta, and the
// harness-only hold / release (the gated subscribers' Send blocks / resumes;
// the cache is not called).
type Op struct {
	K   string `json:"k"`
	Now int64  `json:"now,omitempty"`
	Tgt string `json:"tgt,omitempty"`
	Msg string `json:"msg,omitempty"`
	N   *NotiJ `json:"n,omitempty"`
	// K == "updt": Cache.GetTarget(Tgt).GnmiUpdate(N), a write through the exported Target handle.
	// NID > 0: the caller reuses ONE *pb.Notification object for every call with this id.
	NID int `json:"nid,omitempty"`
	// K == "pair": A is started, parked at the hook Park (now: inside the
	// cache.Now override; feed: at its first callback; feeddel: at its first
	// callback carrying a delete) -- i.e. inside its critical section -- and B
	// is then issued from a second goroutine.
	A    *Op    `json:"a,omitempty"`
	B    *Op    `json:"b,omitempty"`
	Park string `json:"park,omitempty"`
}

type DumpJ struct {
	Tgt  string   `json:"t"`
	Path []string `json:"p"`
	N    NotiJ    `json:"n"`
}

type ObsJ struct {
	Res     string   `json:"res"`           // ok stale future other multi panic pair overtook
	Sub     []ObsJ   `json:"sub,omitempty"` // pair: the results of A and B
	Multi   []string `json:"multi,omitempty"`
	Feed    []NotiJ  `json:"feed,omitempty"`
	Dump    []DumpJ  `json:"dump,omitempty"`
	Mutated bool     `json:"mutated,omitempty"`
	// SlackDirty: a cell in the spare capacity (len..cap) of a slice of a
	// notification handed in (prefix / update path, Elem / Element) is no longer
	// zero: somebody appended to the caller's slice in place.  Counts as
	// "input modified" (tag 3) and is compared with the slice-heap model (tag 1).
	SlackDirty bool `json:"slack_dirty,omitempty"`
	Msg     string   `json:"msg,omitempty"`
}

type CfgJ struct {
	Thr         int64 `json:"thr,omitempty"`
	EventDriven bool  `json:"ed"`
}

type Case struct {
	Family  string   `json:"family"`
	Cfg     CfgJ     `json:"cfg"`
	Subs    int      `json:"subs,omitempty"` // the change feed is also consumed by a real subscribe.Server with this many gated STREAM subscribers on target t
	Targets []string `json:"targets"`
	Ops     []Op     `json:"ops"`
	Obs     []ObsJ   `json:"obs,omitempty"`
}

// ---------------------------------------------------------------------------
// protobuf construction / projection

func mkPath(p *PathJ) *pb.Path {
	if p == nil {
		return nil
	}
	out := &pb.Path{Target: p.Target, Origin: p.Origin}
	for _, e := range p.Elems {
		pe := &pb.PathElem{Name: e.Name}
		if len(e.Keys) > 0 {
			pe.Key = map[string]string{}
			for k, v := range e.Keys {
				pe.Key[k] = v
			}
		}
		out.Elem = append(out.Elem, pe)
	}
	if len(p.Element) > 0 {
		out.Element = append([]string{}, p.Element...)
	}
	return out
}

func mkVal(v *ValJ) *pb.TypedValue {
	if v == nil {
		return nil
	}
	switch v.K {
	case "str":
		return &pb.TypedValue{Value: &pb.TypedValue_StringVal{StringVal: v.S}}
	case "int":
		return &pb.TypedValue{Value: &pb.TypedValue_IntVal{IntVal: v.I}}
	case "uint":
		return &pb.TypedValue{Value: &pb.TypedValue_UintVal{UintVal: uint64(v.I)}}
	case "bool":
		return &pb.TypedValue{Value: &pb.TypedValue_BoolVal{BoolVal: v.B}}
	case "bytes":
		return &pb.TypedValue{Value: &pb.TypedValue_BytesVal{BytesVal: []byte(v.S)}}
	case "json":
		return &pb.TypedValue{Value: &pb.TypedValue_JsonVal{JsonVal: []byte(v.S)}}
	case "jsonietf":
		return &pb.TypedValue{Value: &pb.TypedValue_JsonIetfVal{JsonIetfVal: []byte(v.S)}}
	case "ascii":
		return &pb.TypedValue{Value: &pb.TypedValue_AsciiVal{AsciiVal: v.S}}
	case "protobytes":
		return &pb.TypedValue{Value: &pb.TypedValue_ProtoBytes{ProtoBytes: []byte(v.S)}}
	case "any":
		return &pb.TypedValue{Value: &pb.TypedValue_AnyVal{AnyVal: &anypb.Any{}}}
	case "float":
		return &pb.TypedValue{Value: &pb.TypedValue_FloatVal{FloatVal: math.Float32frombits(uint32(v.Bits))}}
	case "double":
		return &pb.TypedValue{Value: &pb.TypedValue_DoubleVal{DoubleVal: math.Float64frombits(v.Bits)}}
	case "decimal":
		return &pb.TypedValue{Value: &pb.TypedValue_DecimalVal{DecimalVal: &pb.Decimal64{Digits: v.I, Precision: v.Prec}}}
	case "leaflist":
		sa := &pb.ScalarArray{}
		for i := range v.L {
			sa.Element = append(sa.Element, mkVal(&v.L[i]))
		}
		return &pb.TypedValue{Value: &pb.TypedValue_LeaflistVal{LeaflistVal: sa}}
	}
	return &pb.TypedValue{}
}

// shared holds the per-case shared prefix objects.
type shared map[int]*pb.Path

func (s shared) prefix(n *NotiJ) *pb.Path {
	if n.PfxID == 0 || n.Prefix == nil {
		return mkPath(n.Prefix)
	}
	if p, ok := s[n.PfxID]; ok {
		return p
	}
	p := mkPath(n.Prefix)
	// same elements, in a backing array with spare capacity
	el := make([]*pb.PathElem, len(p.Elem), len(p.Elem)+n.PfxSpare)
	copy(el, p.Elem)
	p.Elem = el
	if len(p.Element) > 0 { // the deprecated encoding, with spare capacity too
		es := make([]string, len(p.Element), len(p.Element)+n.PfxSpare)
		copy(es, p.Element)
		p.Element = es
	}
	s[n.PfxID] = p
	return p
}

func (s shared) mkNoti(n *NotiJ) *pb.Notification {
	out := &pb.Notification{Timestamp: n.TS, Atomic: n.Atomic, Prefix: s.prefix(n)}
	for i := range n.Upd {
		u := &n.Upd[i]
		up := mkPath(u.Path)
		if up != nil && n.PfxSpare > 0 { // every slice-typed field of the paths gets spare capacity
			up.Elem = append(make([]*pb.PathElem, 0, len(up.Elem)+n.PfxSpare), up.Elem...)
			if len(up.Element) > 0 {
				up.Element = append(make([]string, 0, len(up.Element)+n.PfxSpare), up.Element...)
			}
		}
		out.Update = append(out.Update, &pb.Update{Path: up, Val: mkVal(u.Val), Duplicates: u.Dup})
	}
	for i := range n.Del {
		out.Delete = append(out.Delete, mkPath(&n.Del[i]))
	}
	return out
}

func projPath(p *pb.Path) *PathJ {
	if p == nil {
		return nil
	}
	out := &PathJ{Target: p.Target, Origin: p.Origin}
	for _, e := range p.Elem {
		ej := ElemJ{Name: e.GetName()}
		if len(e.GetKey()) > 0 {
			ej.Keys = map[string]string{}
			for k, v := range e.GetKey() {
				ej.Keys[k] = v
			}
		}
		out.Elems = append(out.Elems, ej)
	}
	if len(p.Element) > 0 {
		out.Element = append([]string{}, p.Element...)
	}
	return out
}

func projVal(v *pb.TypedValue) *ValJ {
	if v == nil {
		return nil
	}
	switch x := v.Value.(type) {
	case *pb.TypedValue_StringVal:
		return &ValJ{K: "str", S: x.StringVal}
	case *pb.TypedValue_IntVal:
		return &ValJ{K: "int", I: x.IntVal}
	case *pb.TypedValue_UintVal:
		return &ValJ{K: "uint", I: int64(x.UintVal)}
	case *pb.TypedValue_BoolVal:
		return &ValJ{K: "bool", B: x.BoolVal}
	case *pb.TypedValue_BytesVal:
		return &ValJ{K: "bytes", S: string(x.BytesVal)}
	case *pb.TypedValue_JsonVal:
		return &ValJ{K: "json", S: string(x.JsonVal)}
	case *pb.TypedValue_JsonIetfVal:
		return &ValJ{K: "jsonietf", S: string(x.JsonIetfVal)}
	case *pb.TypedValue_AsciiVal:
		return &ValJ{K: "ascii", S: x.AsciiVal}
	case *pb.TypedValue_ProtoBytes:
		return &ValJ{K: "protobytes", S: string(x.ProtoBytes)}
	case *pb.TypedValue_AnyVal:
		return &ValJ{K: "any"}
	case *pb.TypedValue_FloatVal:
		return &ValJ{K: "float", Bits: uint64(math.Float32bits(x.FloatVal))}
	case *pb.TypedValue_DoubleVal:
		return &ValJ{K: "double", Bits: math.Float64bits(x.DoubleVal)}
	case *pb.TypedValue_DecimalVal:
		return &ValJ{K: "decimal", I: x.DecimalVal.GetDigits(), Prec: x.DecimalVal.GetPrecision()}
	case *pb.TypedValue_LeaflistVal:
		out := &ValJ{K: "leaflist"}
		for _, e := range x.LeaflistVal.GetElement() {
			if pv := projVal(e); pv != nil {
				out.L = append(out.L, *pv)
			} else {
				out.L = append(out.L, ValJ{K: "nil"})
			}
		}
		return out
	case nil:
		return &ValJ{K: "none"}
	}
	return &ValJ{K: "json", S: fmt.Sprintf("%T", v.Value)}
}

func projNoti(n *pb.Notification) NotiJ {
	out := NotiJ{TS: n.GetTimestamp(), Atomic: n.GetAtomic(), Prefix: projPath(n.GetPrefix())}
	for _, u := range n.GetUpdate() {
		out.Upd = append(out.Upd, UpdJ{Path: projPath(u.GetPath()), Val: projVal(u.GetVal()), Dup: u.GetDuplicates()})
	}
	for _, d := range n.GetDelete() {
		pj := projPath(d)
		if pj == nil {
			pj = &PathJ{}
		}
		out.Del = append(out.Del, *pj)
	}
	return out
}

// ---------------------------------------------------------------------------
// running a case against the real cache

// indexHead is the first element of the index path of a feed entry (what
// joinPrefixAndPath computes: target dropped, origin first).
func indexHead(pr, p *pb.Path) (string, bool) {
	if o := pr.GetOrigin(); o != "" {
		return o, true
	}
	for _, q := range []*pb.Path{pr, p} {
		if len(q.GetElem()) > 0 {
			return q.GetElem()[0].GetName(), true
		}
		if len(q.GetElement()) > 0 {
			return q.GetElement()[0], true
		}
	}
	return "", false
}

// isMetaNoti: a feed entry that concerns only an index path under "meta".
func isMetaNoti(n *pb.Notification) bool {
	var p *pb.Path
	switch {
	case n.GetAtomic():
		p = nil
	case len(n.GetUpdate()) > 0:
		p = n.GetUpdate()[0].GetPath()
	case len(n.GetDelete()) > 0:
		p = n.GetDelete()[0]
	}
	h, ok := indexHead(n.GetPrefix(), p)
	return ok && h == "meta"
}

func classify(err error) (string, []string) {
	switch {
	case err == nil:
		return "ok", nil
	case err == cache.ErrStale:
		return "stale", nil
	case err == cache.ErrFuture:
		return "future", nil
	}
	if el, ok := err.(errlist.Errors); ok {
		var ms []string
		for _, e := range el.Errors() {
			c, _ := classify(e)
			ms = append(ms, c)
		}
		return "multi", ms
	}
	return "other", nil
}

type runner struct {
	c       *cache.Cache
	feed    []NotiJ
	known   []string
	shared  shared
	srv     *subscribe.Server
	streams []*gstream
	inputs  []inputRec
	mu      sync.Mutex // feed and inputs (two writer goroutines under a pair)
	// parking of the first writer of a pair
	armed    int32
	parkMode string
	parked   chan struct{}
	resume   chan struct{}
	nowVal   int64
	hung     bool
	reused   map[int]*pb.Notification
}

// hangs counts calls that never returned; after a few the run stops generating
// (every further case would wait for the watchdog too).
var hangs int

// maybePark parks the calling goroutine once, if a pair armed this hook.
func (r *runner) maybePark(kind string) {
	if atomic.LoadInt32(&r.armed) == 1 && r.parkMode == kind && atomic.CompareAndSwapInt32(&r.armed, 1, 0) {
		close(r.parked)
		<-r.resume
	}
}

// inputRec is a notification handed to GnmiUpdate and its deep copy taken
// before the call.
type inputRec struct{ n, cp *pb.Notification }

// inputsMutated: does any notification ever handed in differ from its copy?
func (r *runner) inputsMutated() bool {
	r.mu.Lock()
	defer r.mu.Unlock()
	for _, in := range r.inputs {
		if !proto.Equal(in.n, in.cp) {
			return true
		}
	}
	return false
}

// pathSlackDirty: is a cell beyond len of p.Elem / p.Element non-zero?
func pathSlackDirty(p *pb.Path) bool {
	if p == nil {
		return false
	}
	for _, e := range p.Elem[len(p.Elem):cap(p.Elem)] {
		if e != nil {
			return true
		}
	}
	for _, e := range p.Element[len(p.Element):cap(p.Element)] {
		if e != "" {
			return true
		}
	}
	return false
}

// slackDirty: the spare capacity of every slice of every notification ever
// handed in (the harness allocates it zeroed).
func (r *runner) slackDirty() bool {
	r.mu.Lock()
	defer r.mu.Unlock()
	for _, in := range r.inputs {
		if pathSlackDirty(in.n.Prefix) {
			return true
		}
		for _, u := range in.n.Update {
			if u != nil && pathSlackDirty(u.Path) {
				return true
			}
		}
	}
	return false
}

// gstream is an in-memory Subscribe stream whose Send the harness gates.
type gstream struct {
	grpc.ServerStream
	ctx    context.Context
	cancel context.CancelFunc
	req    *pb.SubscribeRequest
	mu     sync.Mutex
	cond   *sync.Cond
	held   bool
	recvd  bool
	sent   int
	synced bool
	done   chan struct{}
}

func newGstream(i int, target string) *gstream {
	ctx := peer.NewContext(context.Background(), &peer.Peer{Addr: &net.TCPAddr{IP: net.IPv4(127, 0, 0, 1), Port: 2000 + i}})
	ctx, cancel := context.WithCancel(ctx)
	sl := &pb.SubscriptionList{
		Prefix:       &pb.Path{Target: target},
		Mode:         pb.SubscriptionList_STREAM,
		Subscription: []*pb.Subscription{{Path: &pb.Path{}}},
	}
	g := &gstream{ctx: ctx, cancel: cancel, done: make(chan struct{}),
		req: &pb.SubscribeRequest{Request: &pb.SubscribeRequest_Subscribe{Subscribe: sl}}}
	g.cond = sync.NewCond(&g.mu)
	return g
}

func (g *gstream) Context() context.Context { return g.ctx }

func (g *gstream) Recv() (*pb.SubscribeRequest, error) {
	g.mu.Lock()
	first := !g.recvd
	g.recvd = true
	g.mu.Unlock()
	if first {
		return g.req, nil
	}
	<-g.ctx.Done()
	return nil, g.ctx.Err()
}

func (g *gstream) Send(r *pb.SubscribeResponse) error {
	g.mu.Lock()
	defer g.mu.Unlock()
	for g.held && g.ctx.Err() == nil {
		g.cond.Wait()
	}
	g.sent++
	if r.GetSyncResponse() {
		g.synced = true
	}
	return nil
}

func (g *gstream) setHeld(h bool) {
	g.mu.Lock()
	g.held = h
	g.mu.Unlock()
	g.cond.Broadcast()
}

func (g *gstream) count() (int, bool) {
	g.mu.Lock()
	defer g.mu.Unlock()
	return g.sent, g.synced
}

// quiesce waits until no subscriber has sent anything for quiet (the held
// ones cannot), at most one second.
func (r *runner) quiesce(quiet time.Duration) {
	if len(r.streams) == 0 {
		return
	}
	total := func() int {
		t := 0
		for _, g := range r.streams {
			c, _ := g.count()
			t += c
		}
		return t
	}
	last, since, start := total(), time.Now(), time.Now()
	for time.Since(start) < time.Second {
		time.Sleep(time.Millisecond)
		if c := total(); c != last {
			last, since = c, time.Now()
		} else if time.Since(since) >= quiet {
			return
		}
	}
}

func (r *runner) startSubscribers(n int, target string) {
	srv, err := subscribe.NewServer(r.c)
	if err != nil {
		panic(err)
	}
	r.srv = srv
	for i := 0; i < n; i++ {
		g := newGstream(i, target)
		r.streams = append(r.streams, g)
		go func() {
			defer close(g.done)
			defer func() { recover() }()
			srv.Subscribe(g)
		}()
	}
	for _, g := range r.streams { // wait for the sync of every subscriber
		for t0 := time.Now(); time.Since(t0) < 2*time.Second; time.Sleep(time.Millisecond) {
			if _, ok := g.count(); ok {
				break
			}
		}
	}
}

func (r *runner) stopSubscribers() {
	for _, g := range r.streams {
		g.cancel()
		g.setHeld(false)
	}
	for _, g := range r.streams {
		select {
		case <-g.done:
		case <-time.After(2 * time.Second):
		}
	}
}

func (r *runner) know(t string) {
	for _, k := range r.known {
		if k == t {
			return
		}
	}
	r.known = append(r.known, t)
}

func (r *runner) dump() []DumpJ {
	var out []DumpJ
	for _, t := range r.known {
		r.c.Query(t, []string{"*"}, func(path []string, _ *ctree.Leaf, v interface{}) error {
			n, ok := v.(*pb.Notification)
			if !ok {
				panic(fmt.Sprintf("query visited a %T", v))
			}
			if len(path) > 0 && path[0] == "meta" {
				return nil // the cache's own bookkeeping, projected out (see C02Check.v)
			}
			out = append(out, DumpJ{Tgt: t, Path: append([]string{}, path...), N: projNoti(n)})
			return nil
		})
	}
	sort.Slice(out, func(i, j int) bool {
		if out[i].Tgt != out[j].Tgt {
			return out[i].Tgt < out[j].Tgt
		}
		return strings.Join(out[i].Path, "\x00") < strings.Join(out[j].Path, "\x00")
	})
	return out
}

// exec runs one call against the cache (recovering a panic into the result).
func (r *runner) exec(o Op) (ob ObsJ) {
	defer func() {
		if p := recover(); p != nil {
			ob = ObsJ{Res: "panic", Msg: fmt.Sprint(p)}
		}
	}()
	switch o.K {
	case "upd", "updt":
		n := r.reused[o.NID]
		if n == nil {
			n = r.shared.mkNoti(o.N)
			if o.NID > 0 {
				r.reused[o.NID] = n
			}
		}
		r.mu.Lock()
		r.inputs = append(r.inputs, inputRec{n: n, cp: proto.Clone(n).(*pb.Notification)})
		r.mu.Unlock()
		if o.K == "upd" {
			ob.Res, ob.Multi = classify(r.c.GnmiUpdate(n))
		} else if h := r.c.GetTarget(o.Tgt); h != nil {
			ob.Res, ob.Multi = classify(h.GnmiUpdate(n))
		} else {
			ob.Res = "other" // no such target: there is no handle to write through
		}
	case "reset":
		r.c.Reset(o.Tgt)
		ob.Res = "ok"
	case "remove":
		r.c.Remove(o.Tgt)
		ob.Res = "ok"
	case "add":
		r.c.Add(o.Tgt)
		ob.Res = "ok"
	case "sync":
		r.c.Sync(o.Tgt)
		ob.Res = "ok"
	case "connect":
		r.c.Connect(o.Tgt)
		ob.Res = "ok"
	case "connecterror":
		r.c.ConnectError(o.Tgt, fmt.Errorf("%s", o.Msg))
		ob.Res = "ok"
	case "updatemeta":
		r.c.UpdateMetadata()
		ob.Res = "ok"
	case "hold":
		for _, g := range r.streams {
			g.setHeld(true)
		}
		ob.Res = "ok"
	case "release":
		for _, g := range r.streams {
			g.setHeld(false)
		}
		ob.Res = "ok"
	case "pair":
		ob = r.execPair(o)
	default:
		panic("unknown op " + o.K)
	}
	return ob
}

// execPair: A runs until it parks at the armed hook (inside its critical
// section); B is then issued from a second goroutine and must not finish
// before A is resumed (bounded wait: load can only hide an overtaking, never
// invent one); then both run to completion.  Without the hook being reached,
// B simply follows A.
func (r *runner) execPair(o Op) ObsJ {
	r.parkMode, r.parked, r.resume = o.Park, make(chan struct{}), make(chan struct{})
	atomic.StoreInt32(&r.armed, 1)
	var oa, obb ObsJ
	doneA, doneB := make(chan struct{}), make(chan struct{})
	go func() { defer close(doneA); oa = r.exec(*o.A) }()
	overtook := false
	select {
	case <-r.parked:
		go func() { defer close(doneB); obb = r.exec(*o.B) }()
		select {
		case <-doneB:
			overtook = true
		case <-time.After(20 * time.Millisecond):
		}
		close(r.resume)
		<-doneA
		<-doneB
	case <-doneA:
		atomic.StoreInt32(&r.armed, 0)
		obb = r.exec(*o.B)
	}
	if overtook {
		return ObsJ{Res: "overtook", Sub: []ObsJ{oa, obb}}
	}
	return ObsJ{Res: "pair", Sub: []ObsJ{oa, obb}}
}

func (r *runner) apply(o Op) (res ObsJ) {
	r.feed = nil
	now := o.Now
	cache.Now = func() time.Time { r.maybePark("now"); return time.Unix(0, now) }
	done := make(chan ObsJ, 1)
	if r.hung { // an earlier call of this case never returned (and may hold locks)
		return ObsJ{Res: "panic", Msg: "not run: an earlier call hangs"}
	}
	go func() { done <- r.exec(o) }()
	select {
	case res = <-done:
	case <-time.After(5 * time.Second):
		res = ObsJ{Res: "panic", Msg: "hang"}
		r.hung = true
		hangs++
		return res // the cache may be locked for good: no Query
	}
	if o.Tgt != "" {
		r.know(o.Tgt)
	}
	if o.N != nil && o.N.Prefix != nil && o.N.Prefix.Target != "" {
		r.know(o.N.Prefix.Target)
	}
	for _, sub := range []*Op{o.A, o.B} {
		if sub != nil && sub.Tgt != "" {
			r.know(sub.Tgt)
		}
		if sub != nil && sub.N != nil && sub.N.Prefix != nil && sub.N.Prefix.Target != "" {
			r.know(sub.N.Prefix.Target)
		}
	}
	res.Feed = r.feed
	r.feed = nil
	// let the subscribers drain what they may (nothing while held), then look
	// at every notification ever handed in
	if o.K == "release" {
		r.quiesce(15 * time.Millisecond)
	} else {
		r.quiesce(4 * time.Millisecond)
	}
	if res.Res != "panic" {
		res.Mutated = r.inputsMutated()
		res.SlackDirty = r.slackDirty()
	}
	func() {
		defer func() {
			if p := recover(); p != nil {
				res.Msg += " dump panicked: " + fmt.Sprint(p)
			}
		}()
		res.Dump = r.dump()
	}()
	return res
}

func runCase(c *Case) {
	var opts []cache.Option
	if c.Cfg.Thr != 0 {
		opts = append(opts, cache.WithFutureThreshold(time.Duration(c.Cfg.Thr)))
	}
	if !c.Cfg.EventDriven {
		opts = append(opts, cache.DisableEventDrivenEmulation())
	}
	r := &runner{shared: shared{}, reused: map[int]*pb.Notification{}}
	cache.Now = func() time.Time { return time.Unix(0, 0) }
	// nil options are legal (WithLatencyWindows returns one) and are skipped
	opts = append([]cache.Option{nil}, append(opts, nil)...)
	func() {
		defer func() {
			if p := recover(); p != nil {
				r.c = nil
			}
		}()
		r.c = cache.New(c.Targets, opts...)
	}()
	if r.c == nil { // the constructor panicked: every call of the case is reported as a panic
		c.Obs = make([]ObsJ, len(c.Ops))
		for i := range c.Obs {
			c.Obs[i] = ObsJ{Res: "panic", Msg: "cache.New panicked"}
		}
		return
	}
	for _, t := range c.Targets {
		r.know(t)
	}
	if c.Subs > 0 {
		r.startSubscribers(c.Subs, c.Targets[0])
		defer r.stopSubscribers()
	}
	r.c.SetClient(func(l *ctree.Leaf) {
		n, ok := l.Value().(*pb.Notification)
		if !ok {
			panic(fmt.Sprintf("callback got a %T", l.Value()))
		}
		// a callback may read the cache (subscribers do): re-enter with a Query of this target
		// (not from Cache.Remove's announcement: Remove calls the callback while it
		// holds the cache-wide lock exclusively, a Query from there deadlocks -- on HEAD)
		isTargetDelete := len(n.GetUpdate()) == 0 && len(n.GetDelete()) == 1 && n.GetPrefix().GetOrigin() == "" &&
			len(n.GetDelete()[0].GetElem()) == 1 && n.GetDelete()[0].GetElem()[0].GetName() == "*"
		if tn := n.GetPrefix().GetTarget(); tn != "" && !isTargetDelete {
			r.c.Query(tn, []string{"zz-none"}, func([]string, *ctree.Leaf, interface{}) error { return nil })
		}
		if !isMetaNoti(n) { // metadata is projected out, as in the dump
			r.mu.Lock()
			r.feed = append(r.feed, projNoti(n))
			r.mu.Unlock()
		}
		if len(n.GetDelete()) > 0 && len(n.GetUpdate()) == 0 {
			r.maybePark("feeddel")
		}
		r.maybePark("feed")
		if r.srv != nil { // chained: the real subscribe.Server consumes the same feed
			r.srv.Update(l)
		}
	})
	c.Obs = make([]ObsJ, len(c.Ops))
	for i, o := range c.Ops {
		c.Obs[i] = r.apply(o)
	}
}

// ---------------------------------------------------------------------------
// Gallina

type termer struct {
	n    *vh.Names
	ids  map[string]int
	dids map[string]int
	lets []string // global definitions of notifications and dumps, in dependency order
}

// intern binds term to a file-level definition <pfx><k> : <typ> and returns
// its name.
func (t *termer) intern(pfx, typ, term string) string {
	key := pfx + "|" + term
	if id, ok := t.dids[key]; ok {
		return fmt.Sprintf("%s%d", pfx, id)
	}
	id := len(t.dids)
	t.dids[key] = id
	t.lets = append(t.lets, fmt.Sprintf("Definition %s%d : %s := %s.\n", pfx, id, typ, term))
	return fmt.Sprintf("%s%d", pfx, id)
}

// dump binds a dump list to a local name, shared between steps that observed
// the same dump.
func (t *termer) dump(term string) string {
	if term == "[]" {
		return term
	}
	if id, ok := t.dids[term]; ok {
		return fmt.Sprintf("d%d", id)
	}
	id := len(t.dids)
	t.dids[term] = id
	t.lets = append(t.lets, fmt.Sprintf("Definition d%d : list dump_entry := %s.\n", id, term))
	return fmt.Sprintf("d%d", id)
}

func (t *termer) str(s string) string { return t.n.Ref(s) }

func (t *termer) path(p *PathJ) string {
	if p == nil {
		return "None"
	}
	return "(Some " + t.gpath(p) + ")"
}

func (t *termer) gpath(p *PathJ) string {
	els := make([]string, len(p.Elems))
	for i, e := range p.Elems {
		ks := make([]string, 0, len(e.Keys))
		names := make([]string, 0, len(e.Keys))
		for k := range e.Keys {
			names = append(names, k)
		}
		sort.Strings(names)
		for _, k := range names {
			ks = append(ks, fmt.Sprintf("(%s, %s)", t.str(k), t.str(e.Keys[k])))
		}
		els[i] = fmt.Sprintf("(%s, %s)", t.str(e.Name), vh.List(ks))
	}
	el := make([]string, len(p.Element))
	for i, s := range p.Element {
		el[i] = t.str(s)
	}
	return t.intern("g", "gpath", fmt.Sprintf("GPath %s %s %s %s", t.str(p.Target), t.str(p.Origin), vh.List(els), vh.List(el)))
}

// tv renders a value as a term of Value.ValueModel.tv.
func (t *termer) tv(v *ValJ) string {
	switch v.K {
	case "str":
		return "(TVString " + t.str(v.S) + ")"
	case "int":
		return "(TVInt " + vh.Z(v.I) + ")"
	case "uint":
		return fmt.Sprintf("(TVUint %d%%N)", uint64(v.I))
	case "bool":
		return "(TVBool " + vh.Bool(v.B) + ")"
	case "bytes":
		return "(TVBytes " + t.str(v.S) + ")"
	case "json":
		return "(TVJson " + t.str(v.S) + ")"
	case "jsonietf":
		return "(TVJsonIetf " + t.str(v.S) + ")"
	case "ascii":
		return "(TVAscii " + t.str(v.S) + ")"
	case "protobytes":
		return "(TVProtoBytes " + t.str(v.S) + ")"
	case "any":
		return "TVAny"
	case "float":
		return fmt.Sprintf("(TVFloat %d%%N)", v.Bits)
	case "double":
		return fmt.Sprintf("(TVDouble %d%%N)", v.Bits)
	case "decimal":
		return fmt.Sprintf("(TVDecimal %s %d%%N)", vh.Z(v.I), v.Prec)
	case "leaflist":
		el := make([]string, len(v.L))
		for i := range v.L {
			el[i] = t.tv(&v.L[i])
		}
		return "(TVLeaflist " + vh.List(el) + ")"
	case "nil":
		return "TVnil"
	}
	return "TVunset"
}

func (t *termer) val(v *ValJ) string {
	if v == nil {
		return "None"
	}
	return "(Some " + t.tv(v) + ")"
}

// noti returns a local identifier bound (by a let in the case term) to the
// notification's term.
func (t *termer) noti(n *NotiJ) string {
	us := make([]string, len(n.Upd))
	for i := range n.Upd {
		u := &n.Upd[i]
		us[i] = fmt.Sprintf("Upd %s %s %s", t.path(u.Path), t.val(u.Val), vh.Z(int64(u.Dup)))
	}
	ds := make([]string, len(n.Del))
	for i := range n.Del {
		ds[i] = t.gpath(&n.Del[i])
	}
	pcap := "None"
	if n.PfxID > 0 {
		pcap = fmt.Sprintf("(Some (%d%%N, %d%%N))", n.PfxID, n.PfxSpare)
	}
	term := fmt.Sprintf("Notif %s %s %s %s %s %s", vh.Z(n.TS), t.path(n.Prefix), pcap, vh.List(us), vh.List(ds), vh.Bool(n.Atomic))
	if id, ok := t.ids[term]; ok {
		return fmt.Sprintf("n%d", id)
	}
	id := len(t.ids)
	t.ids[term] = id
	t.lets = append(t.lets, fmt.Sprintf("Definition n%d : notif := %s.\n", id, term))
	return fmt.Sprintf("n%d", id)
}

func (t *termer) res(o *ObsJ) string {
	cls := func(s string) string {
		switch s {
		case "ok":
			return "ROk"
		case "stale":
			return "RStale"
		case "future":
			return "RFuture"
		case "panic":
			return "RPanic"
		}
		return "ROther"
	}
	if o.Res == "overtook" {
		return "ROvertook"
	}
	if o.Res == "pair" {
		a, b := t.res(&o.Sub[0]), t.res(&o.Sub[1])
		if a == "RPanic" || b == "RPanic" {
			return "RPanic"
		}
		return "(RMulti [" + a + "; " + b + "])"
	}
	if o.Res == "multi" {
		el := make([]string, len(o.Multi))
		for i, m := range o.Multi {
			el[i] = cls(m)
		}
		return "(RMulti " + vh.List(el) + ")"
	}
	return cls(o.Res)
}

func (t *termer) op(o *Op) string {
	switch o.K {
	case "upd":
		return fmt.Sprintf("OUpd %s %s", vh.Z(o.Now), t.noti(o.N))
	case "updt":
		return fmt.Sprintf("OUpdT %s %s %s", vh.Z(o.Now), t.str(o.Tgt), t.noti(o.N))
	case "reset":
		return fmt.Sprintf("OReset %s %s", vh.Z(o.Now), t.str(o.Tgt))
	case "remove":
		return fmt.Sprintf("ORemove %s %s", vh.Z(o.Now), t.str(o.Tgt))
	case "add":
		return "OAdd " + t.str(o.Tgt)
	case "sync":
		return fmt.Sprintf("OSync %s %s", vh.Z(o.Now), t.str(o.Tgt))
	case "connect":
		return fmt.Sprintf("OConnect %s %s", vh.Z(o.Now), t.str(o.Tgt))
	case "connecterror":
		return fmt.Sprintf("OConnectError %s %s %s", vh.Z(o.Now), t.str(o.Tgt), t.str(o.Msg))
	case "updatemeta":
		return "OUpdateMeta " + vh.Z(o.Now)
	case "hold", "release":
		return "ONop"
	case "pair":
		return fmt.Sprintf("OPair (%s) (%s)", t.op(o.A), t.op(o.B))
	}
	panic("op")
}

func caseTerm(t *termer, c *Case) string {
	names := t.n
	steps := make([]string, len(c.Ops))
	for i := range c.Ops {
		ob := &c.Obs[i]
		feed := make([]string, len(ob.Feed))
		for j := range ob.Feed {
			feed[j] = t.noti(&ob.Feed[j])
		}
		dump := make([]string, len(ob.Dump))
		for j := range ob.Dump {
			d := &ob.Dump[j]
			dump[j] = t.intern("e", "dump_entry", fmt.Sprintf("DE %s %s %s", t.str(d.Tgt), t.intern("p", "path", names.Path(d.Path)), t.noti(&d.N)))
		}
		steps[i] = fmt.Sprintf("STEP (%s) %s %s %s %s", t.op(&c.Ops[i]), t.res(ob), vh.List(feed), t.dump(vh.List(dump)), vh.Bool(ob.Mutated || ob.SlackDirty))
	}
	tg := make([]string, len(c.Targets))
	for i, s := range c.Targets {
		tg[i] = t.str(s)
	}
	var b strings.Builder
	fmt.Fprintf(&b, "(Cfg %s %s [], %s, %s)", vh.Z(c.Cfg.Thr), vh.Bool(c.Cfg.EventDriven), vh.List(tg), vh.List(steps))
	return b.String()
}

// ---------------------------------------------------------------------------
// small constructors used by the generators

func elems(names ...string) []ElemJ {
	out := make([]ElemJ, len(names))
	for i, n := range names {
		out[i] = ElemJ{Name: n}
	}
	return out
}

func pfx(target string, names ...string) *PathJ {
	return &PathJ{Target: target, Elems: elems(names...)}
}
func pth(names ...string) *PathJ { return &PathJ{Elems: elems(names...)} }
func ival(i int64) *ValJ         { return &ValJ{K: "int", I: i} }
func sval(s string) *ValJ        { return &ValJ{K: "str", S: s} }

func updN(ts int64, prefix *PathJ, p *PathJ, v *ValJ) *NotiJ {
	return &NotiJ{TS: ts, Prefix: prefix, Upd: []UpdJ{{Path: p, Val: v}}}
}

func delN(ts int64, prefix *PathJ, p *PathJ) *NotiJ {
	return &NotiJ{TS: ts, Prefix: prefix, Del: []PathJ{*p}}
}

// ---------------------------------------------------------------------------
// emitter

// caseFile is vh.CaseFile with a per-file table of notification and dump
// definitions beside the name table (elaboration of the case terms dominates
// the Coq time; notifications recur across cases).
type caseFile struct {
	t     *termer
	terms []string
	descs []json.RawMessage
}

func newCaseFile() *caseFile {
	return &caseFile{t: &termer{n: vh.NewNames(), ids: map[string]int{}, dids: map[string]int{}}}
}

func (c *caseFile) Len() int { return len(c.terms) }

func (c *caseFile) add(cs *Case) {
	c.terms = append(c.terms, caseTerm(c.t, cs))
	b, err := json.Marshal(cs)
	if err != nil {
		panic(err)
	}
	c.descs = append(c.descs, b)
}

func (c *caseFile) write(dir string, k int, require string) error {
	var b strings.Builder
	fmt.Fprintf(&b, "From Gnmi Require Import Base.Prelude %s.\nOpen Scope Z_scope.\n", require)
	b.WriteString(c.t.n.Decls())
	for _, d := range c.t.lets {
		b.WriteString(d)
	}
	refs := make([]string, len(c.terms))
	for i, t := range c.terms {
		fmt.Fprintf(&b, "Definition c%d : ccase := %s.\n", i, t)
		refs[i] = fmt.Sprintf("c%d", i)
	}
	fmt.Fprintf(&b, "Definition cases : list ccase := %s.\n", vh.List(refs))
	b.WriteString("Definition R := Eval vm_compute in check_all cases.\nPrint R.\n")
	if err := os.WriteFile(fmt.Sprintf("%s/cases_%d.v", dir, k), []byte(b.String()), 0o644); err != nil {
		return err
	}
	js, err := json.Marshal(c.descs)
	if err != nil {
		return err
	}
	return os.WriteFile(fmt.Sprintf("%s/cases_%d.json", dir, k), js, 0o644)
}

type emitter struct {
	dir      string
	shard    int
	cf       *caseFile
	meta     *vh.Meta
	limit    int
	checkLib string
}

func (e *emitter) add(c *Case) {
	if hangs >= 4 {
		return
	}
	runCase(c)
	e.cf.add(c)
	nontrivial := false
	hasDel, hasRej := false, false
	for i, o := range c.Ops {
		e.meta.Hist("op:" + o.K)
		ob := &c.Obs[i]
		e.meta.Hist("res:" + ob.Res)
		if (o.K == "upd" || o.K == "updt") && o.N != nil {
			switch {
			case o.N.Atomic:
				e.meta.Hist("noti:atomic")
			case len(o.N.Upd)+len(o.N.Del) > 1:
				e.meta.Hist("noti:multi")
			case len(o.N.Upd) == 1:
				e.meta.Hist("noti:update")
			case len(o.N.Del) == 1:
				e.meta.Hist("noti:delete")
			default:
				e.meta.Hist("noti:empty")
			}
			if len(o.N.Del) > 0 && len(ob.Feed) > 0 {
				hasDel = true
			}
		}
		if ob.Res == "stale" || ob.Res == "future" || ob.Res == "multi" {
			hasRej = true
		}
		if ob.SlackDirty {
			e.meta.Hist("input-slack-written")
		}
		if ob.Mutated {
			e.meta.Hist("input-mutated")
		}
	}
	nontrivial = hasDel || hasRej
	if prop == "c03" {
		sawU, sawD, withheld := false, false, false
		for i, o := range c.Ops {
			ob := &c.Obs[i]
			for _, f := range ob.Feed {
				if len(f.Upd) > 0 {
					sawU = true
				} else {
					sawD = true
				}
			}
			if o.K == "upd" && o.N != nil && len(o.N.Upd) == 1 && len(o.N.Del) == 0 && ob.Res == "ok" && len(ob.Feed) == 0 {
				withheld = true
			}
		}
		nontrivial = (sawU && sawD) || withheld
	}
	e.meta.Hist(fmt.Sprintf("len:%02d", (len(c.Ops)/5)*5))
	cj, _ := json.Marshal(struct {
		C CfgJ
		S int
		T []string
		O []Op
	}{c.Cfg, c.Subs, c.Targets, c.Ops})
	e.meta.Count(c.Family, string(cj), nontrivial, map[string]interface{}{"family": c.Family, "cfg": c.Cfg, "ops": c.Ops})
	if e.cf.Len() >= e.limit {
		e.flush()
	}
}

func (e *emitter) flush() {
	if e.cf.Len() == 0 {
		return
	}
	if err := e.cf.write(e.dir, e.shard, "CTree.CTreeModel Path.PathModel Value.ValueModel Cache.CacheModel Cache.C02Check "+e.checkLib); err != nil {
		vh.Die("write: %v", err)
	}
	e.shard++
	e.cf = newCaseFile()
}

func readCases(file string) []Case {
	b, err := os.ReadFile(file)
	if err != nil {
		vh.Die("read %s: %v", file, err)
	}
	var cs []Case
	if err := json.Unmarshal(b, &cs); err != nil {
		var one Case
		if err2 := json.Unmarshal(b, &one); err2 != nil {
			vh.Die("%s unreadable: %v", file, err)
		}
		cs = []Case{one}
	}
	return cs
}

func quietLogs() {
	flag.Set("logtostderr", "true")
	flag.Set("stderrthreshold", "FATAL")
	// glog writes WARNING and above to stderr when logtostderr is set; send
	// the process's stderr to the bit bucket once flags are parsed.
	if f, err := os.OpenFile(os.DevNull, os.O_WRONLY, 0); err == nil {
		os.Stderr = f
		_ = io.Discard
	}
}

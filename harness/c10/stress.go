// Unsynchronised stress runs (part of mode A): no ticks, no barriers, many
// operations per goroutine.  Judged for progress (a watchdog turns "no
// operation completed for 2 s" into the observation Hang), for panics, and
// for the final content: every stored (path, value) must have been written by
// some call of the run.
//
//	hammer: readers (GetLeafValue, Get().Value(), Get().IsBranch(),
//	        Get().Children(), GetLeaf().Value()) and writers (Leaf.Update
//	        through a retained handle, Add on the existing path) on ONE leaf;
//	api:    every exported method, random mix, overlapping paths.
package main

import (
	"fmt"
	"sync"
	"sync/atomic"
	"time"

	"github.com/openconfig/gnmi/ctree"
	"github.com/openconfig/gnmi/zz_verif/vh"
)

// Stress is the observation of one stress run.
type Stress struct {
	Allowed []LeafObs `json:"allowed"`
	Final   []LeafObs `json:"final"`
	Bad     int       `json:"bad"` // 0 fine, 1 panic, 2 hang
	Msg     string    `json:"msg,omitempty"`
	Ops     int64     `json:"ops"`
}

type progress struct {
	ops   int64
	panic atomic.Value
}

func (p *progress) guard(f func()) {
	defer func() {
		if r := recover(); r != nil {
			p.panic.Store(fmt.Sprint(r))
		}
	}()
	f()
	atomic.AddInt64(&p.ops, 1)
}

// wait returns false when no operation completed for 2 s.
func (p *progress) wait(wg *sync.WaitGroup) bool {
	done := make(chan struct{})
	go func() { wg.Wait(); close(done) }()
	last, lastT := int64(-1), time.Now()
	for {
		select {
		case <-done:
			return true
		case <-time.After(20 * time.Millisecond):
		}
		cur := atomic.LoadInt64(&p.ops)
		if cur != last {
			last, lastT = cur, time.Now()
		} else if time.Since(lastT) > 2*time.Second {
			return false
		}
	}
}

func runHammer(wl Workload) Stress {
	boxed = wl.Box
	r := vh.NewRand(wl.Seed)
	t := &ctree.Tree{}
	p := leafPaths[r.Intn(len(leafPaths))]
	t.Add(p, mkval(0))
	// a second leaf next to it so that the parent is a real branch
	t.Add([]string{"zz"}, mkval(7))
	leaf := t.GetLeaf(p)
	n := wl.Windows // operations per goroutine
	readers := 2 + r.Intn(3)
	var wg sync.WaitGroup
	pr := &progress{}
	for g := 0; g < readers; g++ {
		wg.Add(1)
		kind := g
		go func() {
			defer wg.Done()
			for i := 0; i < n; i++ {
				pr.guard(func() {
					switch (kind + i/50) % 5 {
					case 0, 1:
						t.GetLeafValue(p)
					case 2:
						t.Get(p).Value()
					case 3:
						t.Get(p).IsBranch()
						t.Get(p[:len(p)-1]).Children() // no Delete in this run
					default:
						t.GetLeaf(p).Value()
					}
				})
			}
		}()
	}
	last := [2]int64{0, 0}
	for w := 0; w < 2; w++ {
		wg.Add(1)
		w := w
		go func() {
			defer wg.Done()
			for i := 1; i <= n; i++ {
				v := int64((w+1)*100000 + i)
				pr.guard(func() {
					if w == 0 {
						leaf.Update(mkval(v))
					} else {
						t.Add(p, mkval(v))
					}
				})
				atomic.StoreInt64(&last[w], v)
			}
		}()
	}
	st := Stress{Allowed: []LeafObs{{P: []string{"zz"}, V: 7}}}
	if !pr.wait(&wg) {
		st.Bad, st.Msg = 2, fmt.Sprintf("no progress after %d operations (readers vs Leaf.Update/Add on %v)", atomic.LoadInt64(&pr.ops), p)
		st.Ops = atomic.LoadInt64(&pr.ops)
		return st
	}
	st.Ops = atomic.LoadInt64(&pr.ops)
	if m := pr.panic.Load(); m != nil {
		st.Bad, st.Msg = 1, m.(string)
		return st
	}
	st.Allowed = append(st.Allowed, LeafObs{P: p, V: last[0]}, LeafObs{P: p, V: last[1]})
	st.Final = walkAll(t)
	return st
}

func runAPI(wl Workload) Stress {
	boxed = wl.Box
	r := vh.NewRand(wl.Seed)
	t := &ctree.Tree{}
	n := wl.Windows
	var wg sync.WaitGroup
	pr := &progress{}
	var amu sync.Mutex
	allowed := map[string]LeafObs{}
	note := func(p []string, v int64) {
		amu.Lock()
		allowed[fmt.Sprintf("%q=%d", p, v)] = LeafObs{P: cpPath(p), V: v}
		amu.Unlock()
	}
	for g := 0; g < wl.G; g++ {
		wg.Add(1)
		rr := r.Fork()
		go func() {
			defer wg.Done()
			for i := 0; i < n; i++ {
				lp := leafPaths[rr.Intn(len(leafPaths))]
				dp := delPaths[rr.Intn(len(delPaths))]
				qp := queryPaths[rr.Intn(len(queryPaths))]
				v := int64(1 + rr.Intn(9))
				k := rr.Pick(30, 8, 6, 6, 6, 6, 5, 5, 5, 5, 4, 6, 3, 5, 6)
				if k == 0 || k == 11 {
					note(lp, v) // before the call: a concurrent reader may see it at once
				}
				pr.guard(func() {
					visit := func(path []string, _ *ctree.Leaf, val interface{}) error {
						if _, ok := unval(val); !ok {
							panic(fmt.Sprintf("visited a non-value %T", val))
						}
						return nil
					}
					switch k {
					case 0:
						t.Add(lp, mkval(v))
					case 1:
						t.GetLeafValue(lp)
					case 2:
						t.Get(lp).Value()
					case 3:
						// Children of a node returned by Get (crashed the process
						// before repo commit 3480f62: map iteration vs Delete)
						// what Children returns is the caller's to keep: writing into it
						// must not reach the tree (no path may appear that nobody added)
						if c := t.Get(lp[:len(lp)-1]).Children(); c != nil {
							c["zz-alien"] = alienLeaf()
						}
						for range t.Get(lp[:1]).Children() {
						}
					case 4:
						t.Get(lp[:len(lp)-1]).IsBranch()
					case 5:
						t.Query(qp, visit)
					case 6:
						t.Walk(visit)
					case 7:
						t.WalkSorted(visit)
					case 8:
						t.Delete(dp)
					case 9:
						t.DeleteConditional(dp, func(x interface{}) bool { y, ok := unval(x); return ok && y < 5 })
					case 10:
						t.WalkDeleted(dp, func(x interface{}) bool { y, ok := unval(x); return ok && y >= 5 }, func(interface{}) {})
					case 11:
						// handles to leaves only (KF-C09-1)
						if l := t.GetLeaf(lp); l != nil {
							if _, ok := unval(l.Value()); ok {
								l.Update(mkval(v))
							}
						}
					case 14:
						// visitors that give up with an error: Query, Walk, WalkSorted
						// must come back with it and leave no lock behind
						cnt, lim := 0, rr.Intn(3)
						bad := func(path []string, _ *ctree.Leaf, val interface{}) error {
							cnt++
							if cnt > lim {
								return fmt.Errorf("stop")
							}
							return nil
						}
						switch i % 3 {
						case 0:
							t.Query(qp, bad)
						case 1:
							t.Walk(bad)
						default:
							t.WalkSorted(bad)
						}
					case 12:
						_ = t.String()
					default:
						t.GetLeaf(lp).Value()
					}
				})
			}
		}()
	}
	st := Stress{}
	if !pr.wait(&wg) {
		st.Bad, st.Msg = 2, fmt.Sprintf("no progress after %d operations (all exported methods)", atomic.LoadInt64(&pr.ops))
		st.Ops = atomic.LoadInt64(&pr.ops)
		return st
	}
	st.Ops = atomic.LoadInt64(&pr.ops)
	if m := pr.panic.Load(); m != nil {
		st.Bad, st.Msg = 1, m.(string)
		return st
	}
	for _, l := range allowed {
		st.Allowed = append(st.Allowed, l)
	}
	// the same once more with everything quiet (deterministic)
	if c := t.Children(); c != nil {
		c["zz-alien"] = alienLeaf()
	}
	if c := t.Get([]string{"a"}).Children(); c != nil {
		c["zz-alien"] = alienLeaf()
	}
	st.Final = walkAll(t)
	return st
}

func alienLeaf() *ctree.Tree {
	n := &ctree.Tree{}
	n.Add(nil, mkval(4242))
	return n
}

// Free-running workload (mode A): 2..16 goroutines issue random operation
// mixes on overlapping paths.  The run is cut into windows by barriers; in
// every window at most 8 operations are in flight.  Invocation and response
// of every call are stamped with one global atomic counter.  Between windows
// (quiescence) the controller walks the tree, so every window is a
// self-contained case: content before, completed operations, content after.
package main

import (
	"fmt"
	"os"
	"runtime"
	"sync"
	"sync/atomic"
	"time"

	"github.com/openconfig/gnmi/ctree"
	"github.com/openconfig/gnmi/zz_verif/vh"
)

// Workload identifies one mode-A run (replay re-runs it; schedules differ).
type Workload struct {
	Kind    string `json:"kind,omitempty"` // "" windows, "hammer", "api" (stress.go; Windows = operations per goroutine)
	Seed    uint64 `json:"seed"`
	G       int    `json:"g"`
	Windows int    `json:"windows"`
	Box     bool   `json:"box,omitempty"` // store the values boxed in an uncomparable struct type
}

// WOp is one completed call of a window.
type WOp struct {
	Tid int `json:"tid"`
	Inv int `json:"inv"`
	Rsp int `json:"rsp"`
	Op  SOp `json:"op"` // K: add getval delete query hold(=Leaf.Update via handle) hval
	Res Res `json:"res"`
}

// Window is one case of mode A.
type Window struct {
	S0    []LeafObs `json:"s0"`
	Ops   []WOp     `json:"wops"`
	Final []LeafObs `json:"final"`
	Hung  bool      `json:"hung,omitempty"`
}

var hookCnt uint64

// modeAHook widens the reader->writer exchange window of Add.
func modeAHook() {
	n := atomic.AddUint64(&hookCnt, 1)
	switch {
	case n%11 == 0:
		time.Sleep(10 * time.Microsecond)
	case n%2 == 0:
		runtime.Gosched()
	}
}

var leafPaths = [][]string{
	{"a", "b"}, {"a", "c"}, {"a", "b", "c"}, {"a", "d", "e"}, {"a", "d", "f"}, {"b"}, {"b", "x"}, {"c", "x", "y"},
}
var delPaths = [][]string{
	{"a"}, {"a", "b"}, {"a", "d"}, {"a", "*"}, {"*"}, {"b"}, {}, {"a", "d", "e"}, {"c"}, {"*", "x"},
}
var queryPaths = [][]string{
	{}, {"a"}, {"a", "*"}, {"*"}, {"a", "d"}, {"a", "d", "*"}, {"b"}, {"*", "x"}, {"a", "b"}, {"c", "x", "y"},
}

func walkAll(t *ctree.Tree) []LeafObs {
	var out []LeafObs
	_ = t.Walk(func(path []string, _ *ctree.Leaf, val interface{}) error {
		x, ok := unval(val)
		if !ok {
			x = -999
		}
		out = append(out, LeafObs{P: cpPath(path), V: x})
		return nil
	})
	return out
}

func pathKey(p []string) string { return fmt.Sprintf("%q", p) }

// runWorkload executes one workload and returns its windows.
func runWorkload(wl Workload) []Window {
	boxed = wl.Box
	r := vh.NewRand(wl.Seed)
	t := &ctree.Tree{}
	var tick int64
	var wins []Window
	handles := map[string]*ctree.Leaf{}
	s0 := []LeafObs{}
	for wi := 0; wi < wl.Windows; wi++ {
		// plan: at most 8 operations, spread over up to G goroutines
		nops := 2 + r.Intn(7)
		type plan struct {
			tid int
			ops []SOp
			hs  []*ctree.Leaf
		}
		active := 1 + r.Intn(wl.G)
		if active > nops {
			active = nops
		}
		plans := make([]*plan, active)
		perm := make([]int, wl.G)
		for i := range perm {
			perm[i] = i
		}
		for i := 0; i < active; i++ {
			j := i + r.Intn(wl.G-i)
			perm[i], perm[j] = perm[j], perm[i]
			plans[i] = &plan{tid: perm[i]}
		}
		for k := 0; k < nops; k++ {
			p := plans[k%active]
			var o SOp
			var h *ctree.Leaf
			switch r.Pick(45, 14, 12, 16, 3, 5, 5, 6, 5) {
			case 8:
				o = SOp{K: []string{"walk", "walksorted"}[r.Intn(2)], P: []string{}}
			case 7:
				o = SOp{K: "queryerr", P: queryPaths[r.Intn(len(queryPaths))], V: int64(r.Intn(2))}
			case 0:
				o = SOp{K: "add", P: leafPaths[r.Intn(len(leafPaths))], V: int64(1 + r.Intn(9))}
			case 1:
				o = SOp{K: "getval", P: leafPaths[r.Intn(len(leafPaths))]}
			case 2:
				o = SOp{K: "delete", P: delPaths[r.Intn(len(delPaths))]}
			case 3:
				o = SOp{K: "query", P: queryPaths[r.Intn(len(queryPaths))]}
			case 4:
				o = SOp{K: "query", P: []string{}}
			case 5:
				lp := leafPaths[r.Intn(len(leafPaths))]
				o = SOp{K: "hold", P: lp, V: int64(10 + r.Intn(9))}
				h = handles[pathKey(lp)]
			default:
				lp := leafPaths[r.Intn(len(leafPaths))]
				o = SOp{K: "hval", P: lp}
				h = handles[pathKey(lp)]
			}
			p.ops = append(p.ops, o)
			p.hs = append(p.hs, h)
		}
		var mu sync.Mutex
		var wops []WOp
		var wg sync.WaitGroup
		start := make(chan struct{})
		for _, p := range plans {
			wg.Add(1)
			go func(p *plan) {
				defer wg.Done()
				<-start
				for i, o := range p.ops {
					inv := int(atomic.AddInt64(&tick, 1))
					res := func() (res Res) {
						defer func() {
							if rc := recover(); rc != nil {
								res = Res{Kind: "panic", Msg: fmt.Sprint(rc)}
							}
						}()
						return applyOp(t, o, p.hs[i], nil)
					}()
					rsp := int(atomic.AddInt64(&tick, 1))
					mu.Lock()
					wops = append(wops, WOp{Tid: p.tid, Inv: inv, Rsp: rsp, Op: o, Res: res})
					mu.Unlock()
				}
			}(p)
		}
		close(start)
		donec := make(chan struct{})
		go func() { wg.Wait(); close(donec) }()
		select {
		case <-donec:
		case <-time.After(6 * time.Second):
			// deadlock or livelock: report what completed; the tree is abandoned
			mu.Lock()
			w := Window{S0: s0, Ops: append([]WOp{}, wops...), Hung: true}
			mu.Unlock()
			wins = append(wins, w)
			return wins
		}
		final := walkAll(t)
		wins = append(wins, Window{S0: s0, Ops: wops, Final: final})
		s0 = final
		// handles for the next windows: taken at quiescence, only to leaves;
		// some are deliberately kept although their node may be deleted later
		for _, lp := range leafPaths {
			if r.Chance(1, 2) {
				continue
			}
			l := t.GetLeaf(lp)
			if l == nil {
				continue
			}
			if _, ok := unval(l.Value()); ok {
				handles[pathKey(lp)] = l
			}
		}
	}
	return wins
}

// raceWorkload is what the -race build runs (thorough tier): no ticks, no
// shared mutex, so that the race detector sees as few happens-before edges as
// the code under test itself creates.  Phase 1: every operation except
// updates through retained handles (no report expected).  Phase 2: updates
// through retained handles against deletes (raced before repo commit 3480f62; no
// report expected now).
func raceWorkload(seed uint64) {
	r := vh.NewRand(seed)
	t := &ctree.Tree{}
	var wg sync.WaitGroup
	for g := 0; g < 12; g++ {
		wg.Add(1)
		rr := r.Fork()
		go func() {
			defer wg.Done()
			for i := 0; i < 4000; i++ {
				var o SOp
				switch rr.Pick(45, 15, 12, 18, 10) {
				case 0:
					o = SOp{K: "add", P: leafPaths[rr.Intn(len(leafPaths))], V: int64(1 + rr.Intn(9))}
				case 1:
					o = SOp{K: "getval", P: leafPaths[rr.Intn(len(leafPaths))]}
				case 2:
					o = SOp{K: "delete", P: delPaths[rr.Intn(len(delPaths))]}
				case 3:
					o = SOp{K: "query", P: queryPaths[rr.Intn(len(queryPaths))]}
				default:
					// Value through a handle (reads only)
					l := t.GetLeaf(leafPaths[rr.Intn(len(leafPaths))])
					_ = l.Value()
					continue
				}
				func() {
					defer func() { recover() }()
					applyOp(t, o, nil, nil)
				}()
			}
		}()
	}
	wg.Wait()
	fmt.Fprintln(os.Stderr, "C10-RACE-PHASE-2")
	t2 := &ctree.Tree{}
	p := []string{"a", "b"}
	t2.Add(p, int64(1))
	for g := 0; g < 4; g++ {
		wg.Add(1)
		g := g
		go func() {
			defer wg.Done()
			for i := 0; i < 3000; i++ {
				if g%2 == 0 {
					if l := t2.GetLeaf(p); l != nil {
						if _, ok := l.Value().(int64); ok {
							l.Update(int64(i))
						}
					}
					t2.Add(p, int64(i))
				} else {
					t2.Delete(p)
				}
			}
		}()
	}
	wg.Wait()
	// Phase 3: Children() of a node returned by Get against Delete (same root
	// cause: Delete mutates the node's map under the root lock only).  Last,
	// because the runtime may abort with "concurrent map iteration and map write".
	fmt.Fprintln(os.Stderr, "C10-RACE-PHASE-3")
	t3 := &ctree.Tree{}
	for g := 0; g < 3; g++ {
		wg.Add(1)
		g := g
		go func() {
			defer wg.Done()
			for i := 0; i < 3000; i++ {
				switch g {
				case 0:
					t3.Add([]string{"a", "b"}, int64(i))
					t3.Add([]string{"a", "c"}, int64(i))
				case 1:
					t3.Delete([]string{"a", "b"})
				default:
					t3.Get([]string{"a"}).Children()
				}
			}
		}()
	}
	wg.Wait()
}

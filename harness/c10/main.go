// Harness for C10: the path tree under concurrency.
//
// Mode S (sched.go): forced schedules of adders parked in the reader->writer
// exchange window of Add, a deleter, getters, queries parked in their visitor
// and paused leaf updates; every observation is validated in Coq against the
// LTS of CTreeConc.v and the run's history against the flat specification.
// Mode A (modea.go): free-running goroutines, histories cut into windows and
// judged in Coq by the linearizability checker and the weak query
// specification.  Mode A runs in a child process: a fatal runtime error
// ("concurrent map writes") is an observation, not a harness failure.
package main

import (
	"encoding/json"
	"flag"
	"fmt"
	"os"
	"os/exec"
	"sort"
	"strings"

	"github.com/openconfig/gnmi/ctree"
	"github.com/openconfig/gnmi/zz_verif/vh"
)

// Case is what is written to cases_k.json and read back for replay.
type Case struct {
	Family string `json:"family"`
	Kind   string `json:"kind"` // sched win event
	// sched
	Prog    []SOp     `json:"prog,omitempty"`
	Ops     []int     `json:"ops,omitempty"` // the schedule: worker ids to advance
	Steps   []SStep   `json:"steps,omitempty"`
	Results []Res     `json:"results,omitempty"`
	Final   []LeafObs `json:"final,omitempty"`
	// win
	WL  *Workload `json:"wl,omitempty"`
	Idx int       `json:"idx,omitempty"`
	Win *Window   `json:"win,omitempty"`
	// stress
	Stress *Stress `json:"stress,omitempty"`
	// event: 1 crash, 2 hang, 3 race Leaf.Update||Delete, 4 other race
	Event int    `json:"event,omitempty"`
	Msg   string `json:"msg,omitempty"`
}

// ---------------------------------------------------------------------------
// Gallina

func leavesTerm(n *vh.Names, ls []LeafObs) string {
	el := make([]string, len(ls))
	for i, l := range ls {
		el[i] = fmt.Sprintf("(%s, %s)", n.Path(l.P), vh.Z(l.V))
	}
	return vh.List(el)
}

func resTerm(n *vh.Names, r Res) string {
	switch r.Kind {
	case "add":
		return "RsAdd " + vh.Bool(r.OK)
	case "val":
		if r.Has {
			return "RsVal (Some " + vh.Z(r.V) + ")"
		}
		return "RsVal None"
	case "paths":
		el := make([]string, len(r.Paths))
		for i, p := range r.Paths {
			el[i] = n.Path(p)
		}
		return "RsPaths " + vh.List(el)
	case "leaves":
		return "RsLeaves " + leavesTerm(n, r.Leaves)
	case "swallowed":
		return "RsSwallowed"
	case "qerr":
		return "RsQErr"
	case "unit":
		return "RsUnit"
	case "panic":
		return "RsPanic"
	}
	return "RsHang"
}

func sopTerm(n *vh.Names, o SOp) string {
	switch o.K {
	case "add":
		return fmt.Sprintf("SAdd %s %s", n.Path(o.P), vh.Z(o.V))
	case "getval":
		return "SGetVal " + n.Path(o.P)
	case "query":
		return "SQuery " + n.Path(o.P)
	case "queryerr":
		return fmt.Sprintf("SQueryErr %s %s", n.Path(o.P), vh.Nat(int(o.V)))
	case "walk", "walksorted":
		return "SWalk None"
	case "walkerr", "walksortederr":
		return fmt.Sprintf("SWalk (Some %s)", vh.Nat(int(o.V)))
	case "delcond", "walkdel":
		return "SDelCond " + n.Path(o.P)
	case "delete":
		return "SDelete " + n.Path(o.P)
	case "hold":
		return fmt.Sprintf("SHold %s %s", n.Path(o.P), vh.Z(o.V))
	}
	panic("sopTerm " + o.K)
}

func aopTerm(n *vh.Names, o SOp) string {
	switch o.K {
	case "add":
		return fmt.Sprintf("AAdd %s %s", n.Path(o.P), vh.Z(o.V))
	case "getval":
		return "AGetVal " + n.Path(o.P)
	case "query":
		return "AQuery " + n.Path(o.P)
	case "queryerr":
		return "AQueryErr " + n.Path(o.P)
	case "walk", "walksorted":
		return "AQuery []"
	case "walkerr", "walksortederr":
		return "AQueryErr []"
	case "delcond", "walkdel":
		return "ADelete " + n.Path(o.P)
	case "delete":
		return "ADelete " + n.Path(o.P)
	case "hold":
		return fmt.Sprintf("AHUpd %s %s", n.Path(o.P), vh.Z(o.V))
	case "hval":
		return "AHVal " + n.Path(o.P)
	}
	panic("aopTerm " + o.K)
}

func caseTerm(n *vh.Names, c Case) string {
	switch c.Kind {
	case "sched":
		pe := make([]string, len(c.Prog))
		for i, o := range c.Prog {
			pe[i] = sopTerm(n, o)
		}
		se := make([]string, len(c.Steps))
		for i, s := range c.Steps {
			st := make([]string, len(s.Status))
			for j, x := range s.Status {
				st[j] = vh.Nat(x)
			}
			lk := make([]string, len(s.Locks))
			for j, l := range s.Locks {
				lk[j] = fmt.Sprintf("(%s, %s)", n.Path(l.P), vh.Nat(l.C))
			}
			se[i] = fmt.Sprintf("SOBS %s %s %s", vh.Nat(s.Tid), vh.List(st), vh.List(lk))
		}
		re := make([]string, len(c.Results))
		for i, r := range c.Results {
			re[i] = resTerm(n, r)
		}
		return fmt.Sprintf("CSched %s %s %s %s", vh.List(pe), vh.List(se), vh.List(re), leavesTerm(n, c.Final))
	case "win":
		w := c.Win
		oe := make([]string, 0, len(w.Ops)+1)
		for _, o := range w.Ops {
			oe = append(oe, fmt.Sprintf("OPR %s %s %s (%s) (%s)", vh.Nat(o.Tid), vh.Nat(o.Inv), vh.Nat(o.Rsp), aopTerm(n, o.Op), resTerm(n, o.Res)))
		}
		if w.Hung {
			oe = append(oe, fmt.Sprintf("OPR 0%%nat 0%%nat 0%%nat (AQuery []) RsHang"))
		}
		return fmt.Sprintf("CWin %s %s %s", leavesTerm(n, w.S0), vh.List(oe), leavesTerm(n, w.Final))
	case "stress":
		return fmt.Sprintf("CStress %s %s %d%%N", leavesTerm(n, c.Stress.Allowed), leavesTerm(n, c.Stress.Final), c.Stress.Bad)
	case "event":
		return fmt.Sprintf("CEvent %d%%N", c.Event)
	}
	panic("caseTerm " + c.Kind)
}

// ---------------------------------------------------------------------------
// emission

type emitter struct {
	dir   string
	shard int
	cf    *vh.CaseFile
	meta  *vh.Meta
	limit int
}

func (e *emitter) put(c Case, canonical string, nontrivial bool, sample interface{}) {
	e.cf.Add(caseTerm(e.cf.Names, c), c)
	e.meta.Count(c.Family, canonical, nontrivial, sample)
	if e.cf.Len() >= e.limit {
		e.flush()
	}
}

func (e *emitter) flush() {
	if e.cf.Len() == 0 {
		return
	}
	if err := e.cf.Write(e.dir, e.shard, "CTree.CTreeConc CTree.LinCheck CTree.C10Check", "c10case", "check_all"); err != nil {
		vh.Die("write: %v", err)
	}
	e.shard++
	e.cf = vh.NewCaseFile()
}

func opStr(o SOp) string {
	if o.K == "add" || o.K == "hold" {
		return fmt.Sprintf("%s(%s)=%d", o.K, strings.Join(o.P, "/"), o.V)
	}
	return fmt.Sprintf("%s(%s)", o.K, strings.Join(o.P, "/"))
}

// addSched executes one schedule and emits it.
func (e *emitter) addSched(family string, prog []SOp, sched []int) SchedResult {
	return e.emitSched(family, prog, runSchedule(prog, sched, true))
}

func (e *emitter) emitSched(family string, prog []SOp, r SchedResult) SchedResult {
	executed := make([]int, len(r.Steps))
	for i, s := range r.Steps {
		executed[i] = s.Tid
	}
	c := Case{Family: family, Kind: "sched", Prog: prog, Ops: executed, Steps: r.Steps, Results: r.Results, Final: r.Final}
	// non-trivial: at some observation two workers were in flight (parked or blocked)
	nt := false
	maxIn := 0
	for _, s := range r.Steps {
		in := 0
		for _, x := range s.Status {
			if x == 1 || x == 2 {
				in++
			}
		}
		if in > maxIn {
			maxIn = in
		}
		for _, x := range s.Status {
			if x == 2 {
				e.meta.Hist("sched:step-with-blocked-worker")
				break
			}
		}
	}
	if maxIn >= 2 {
		nt = true
	}
	e.meta.Hist(fmt.Sprintf("sched:max-in-flight:%d", maxIn))
	e.meta.Hist(fmt.Sprintf("sched:steps:%02d", (len(r.Steps)/4)*4))
	for _, o := range prog {
		e.meta.Hist("sched:op:" + o.K)
	}
	if r.Hung {
		e.meta.Hist("sched:hang")
	}
	ps := make([]string, len(prog))
	for i, o := range prog {
		ps[i] = opStr(o)
	}
	canon, _ := json.Marshal(struct {
		P []SOp
		S []int
	}{prog, executed})
	e.put(c, string(canon), nt, map[string]interface{}{"family": family, "prog": ps, "schedule": executed})
	return r
}

func (e *emitter) addWindows(family string, wl Workload, wins []Window) {
	for i := range wins {
		w := wins[i]
		c := Case{Family: family, Kind: "win", WL: &wl, Idx: i, Win: &w}
		// non-trivial: two operations of different goroutines overlap in time and one of them writes
		nt := false
		for a := range w.Ops {
			for b := range w.Ops {
				x, y := w.Ops[a], w.Ops[b]
				if a != b && x.Tid != y.Tid && x.Inv < y.Rsp && y.Inv < x.Rsp && (x.Op.K == "add" || x.Op.K == "delete" || x.Op.K == "hold") {
					nt = true
				}
			}
		}
		for _, o := range w.Ops {
			e.meta.Hist("win:op:" + o.Op.K)
			if o.Res.Kind == "panic" {
				e.meta.Hist("win:panic")
			}
		}
		e.meta.Hist(fmt.Sprintf("win:goroutines:%02d", wl.G))
		e.meta.Hist(fmt.Sprintf("win:ops:%d", len(w.Ops)))
		if w.Hung {
			e.meta.Hist("win:hang")
		}
		canon, _ := json.Marshal(w)
		var sample []string
		for _, o := range w.Ops {
			sample = append(sample, fmt.Sprintf("g%d [%d,%d] %s -> %s", o.Tid, o.Inv, o.Rsp, opStr(o.Op), resTerm(vh.NewNames(), o.Res)))
		}
		e.put(c, string(canon), nt, map[string]interface{}{"family": family, "goroutines": wl.G, "window": sample})
	}
}

func (e *emitter) addEvent(family string, kind int, msg string) {
	c := Case{Family: family, Kind: "event", Event: kind, Msg: msg}
	e.put(c, fmt.Sprintf("event-%d-%s", kind, msg), false, nil)
	e.meta.Hist(fmt.Sprintf("event:%d", kind))
}

// ---------------------------------------------------------------------------
// schedule exploration (stateless: every schedule is executed from scratch)

// explore enumerates schedules depth first: after the fixed prefix, at every
// point any parked worker may be released or the lowest not-started worker
// started.  Complete schedules are emitted; at most max of them.
func (e *emitter) explore(family string, prog []SOp, prefix []int, max int) int {
	count := 0
	var rec func(sched []int)
	rec = func(sched []int) {
		if count >= max {
			return
		}
		// always driven to the end (no goroutine stays parked); the status
		// after the requested prefix decides how the enumeration continues
		r := runSchedule(prog, sched, true)
		cands := candidatesOf(r.Status)
		if r.Hung || len(cands) == 0 {
			e.emitSched(family, prog, r)
			count++
			return
		}
		for _, i := range cands {
			rec(append(append([]int{}, sched...), i))
		}
	}
	rec(prefix)
	return count
}

func candidatesOf(st []int) []int {
	var out []int
	first := true
	for i, x := range st {
		if x == 1 {
			out = append(out, i)
		}
		if x == 0 && first {
			out = append(out, i)
			first = false
		}
	}
	return out
}

// randomWalks executes n random schedules of prog.
func (e *emitter) randomWalks(family string, prog []SOp, r *vh.Rand, n int) {
	for k := 0; k < n; k++ {
		// choose the schedule blindly: a random sequence of worker ids; ids that
		// cannot be advanced at that point are skipped by the controller
		ln := 3*len(prog) + r.Intn(2*len(prog)+1)
		sched := make([]int, ln)
		started := 0
		for i := range sched {
			if started < len(prog) && (started == 0 || r.Chance(1, 2)) {
				sched[i] = started
				started++
			} else {
				sched[i] = r.Intn(started)
			}
		}
		e.addSched(family, prog, sched)
	}
}

func P(s string) []string {
	if s == "" {
		return []string{}
	}
	return strings.Split(s, "/")
}

type scenario struct {
	name   string
	prog   []SOp
	prefix []int // setup: advanced first, in this order
	max    int
	thor   int
}

func scenarios() []scenario {
	add := func(p string, v int64) SOp { return SOp{K: "add", P: P(p), V: v} }
	del := func(p string) SOp { return SOp{K: "delete", P: P(p)} }
	get := func(p string) SOp { return SOp{K: "getval", P: P(p)} }
	qry := func(p string) SOp { return SOp{K: "query", P: P(p)} }
	hold := func(p string, v int64) SOp { return SOp{K: "hold", P: P(p), V: v} }
	qerr := func(p string, k int64) SOp { return SOp{K: "queryerr", P: P(p), V: k} }
	return []scenario{
		{"upgrade-2", []SOp{add("a/b/x", 1), add("a/b/y", 2)}, nil, 40, 40},
		{"upgrade-3", []SOp{add("a/b/x", 1), add("a/b/y", 2), add("a/b/z", 3)}, nil, 120, 2000},
		{"upgrade-4", []SOp{add("a/b/x", 1), add("a/b/y", 2), add("a/b/z", 3), add("a/b/w", 4)}, nil, 60, 6000},
		{"upgrade-depths", []SOp{add("a/x", 1), add("a/b/y", 2), add("a/b", 3), add("c", 4)}, nil, 80, 3000},
		{"upgrade-same-leaf", []SOp{add("a/b", 1), add("a/b", 2), add("a/b/c", 3)}, nil, 80, 2000},
		{"upgrade-delete", []SOp{add("a/b/x", 1), add("a/b/y", 2), del("a")}, nil, 100, 2000},
		{"upgrade-delete-sub", []SOp{add("a/b/x", 1), add("a/c", 2), del("a/b"), get("a/b/x")}, nil, 100, 3000},
		{"upgrade-delete-all", []SOp{add("a/x", 1), add("b/y/z", 2), del(""), add("a/x", 5)}, nil, 80, 3000},
		{"held-root-reader", []SOp{add("a/x", 1), add("a/b/c", 2), del("a"), get("a/x"), add("a/b/d", 3)}, []int{0, 0}, 100, 4000},
		{"hold-get", []SOp{add("a/b", 1), hold("a/b", 5), get("a/b"), del("a"), add("a/b", 7)}, []int{0, 0}, 80, 2000},
		{"hold-query", []SOp{add("a/b", 1), hold("a/b", 5), qry("a/b"), del("a/*"), get("a/b")}, []int{0, 0}, 80, 2000},
		{"query-park", []SOp{add("a/b", 1), qry("a/b"), del("a/b"), add("a/c", 2), hold("a/b", 9)}, []int{0, 0}, 80, 2000},
		{"query-park-2", []SOp{add("a/b", 1), add("c", 2), qry("a/*"), add("a/d/e", 3), del("*"), get("c")}, []int{0, 0, 1, 1}, 80, 3000},
		{"query-park-add", []SOp{add("a/b", 1), qry("a/b"), add("a/b", 7), get("a/b"), del("a"), add("a/b", 8)}, []int{0, 0}, 80, 2000},
		{"query-multi", []SOp{add("a/b", 1), add("a/c", 2), add("a/d/e", 3), qry("a/*"), add("a/f", 4), del("a/c"), qry("")}, []int{0, 0, 1, 1, 2, 2, 2}, 80, 2000},
		// a visitor that returns an error: every read lock must be released on the
		// way out, so the writers that follow (also strictly sequentially) return
		{"queryerr-literal", []SOp{add("a/b", 1), add("a/c", 2), qerr("a/b", 0), del("a"), add("a/d", 3), get("a/c")}, []int{0, 0, 1, 1}, 60, 1000},
		{"queryerr-glob", []SOp{add("a/b", 1), add("a/c", 2), qerr("a/*", 0), add("a/e", 5), del("x"), qry("a/*")}, []int{0, 0, 1, 1}, 80, 2000},
		{"queryerr-midglob", []SOp{add("a/x/c", 1), add("a/y/c", 2), qerr("a/*/c", 0), del("a/x"), qerr("*/*/c", 1), add("a/z/c", 3)}, []int{0, 0, 1, 1}, 60, 1000},
		{"queryerr-second", []SOp{add("a/b/c", 1), add("a/b/d", 2), qerr("a/b/*", 1), add("a/b/e", 3), del("a/b/c"), qerr("", 0)}, []int{0, 0, 1, 1}, 80, 2000},
		// every read-side traversal parked at each callback x a multi-leaf delete:
		// the delete must stay blocked on the root lock until the traversal is over,
		// so the traversal reports all or none of what that delete removes
		{"walksorted-delete", []SOp{add("a/k", 1), add("b/z", 2), add("c/k", 3), {K: "walksorted"}, del("*/k"), get("c/k")}, []int{0, 0, 1, 1, 2, 2}, 80, 1000},
		{"walk-delete", []SOp{add("a/k", 1), add("b/z", 2), add("c/k", 3), {K: "walk"}, del("*/k"), add("d/k", 4)}, []int{0, 0, 1, 1, 2, 2}, 80, 1000},
		{"walksorted-delcond", []SOp{add("a/x", 1), add("a/y", 2), add("b", 3), {K: "walksorted"}, {K: "delcond", P: P("a")}, {K: "walk"}}, []int{0, 0, 1, 1, 2, 2}, 80, 1000},
		{"query-delete-glob", []SOp{add("a/k", 1), add("b/z", 2), add("c/k", 3), qry("*/*"), del("*/k"), qry("")}, []int{0, 0, 1, 1, 2, 2}, 80, 1000},
		{"walk-walkdel", []SOp{add("a/k", 1), add("b/z", 2), add("c/k", 3), {K: "walksorted"}, {K: "walkdel", P: P("*/k")}, {K: "walk"}}, []int{0, 0, 1, 1, 2, 2}, 80, 1000},
		{"query-walkdel", []SOp{add("a/b", 1), add("a/c", 2), qry("a/*"), {K: "walkdel", P: P("a")}, add("a/d", 3), get("a/c")}, []int{0, 0, 1, 1}, 60, 1000},
		{"walkerr-delete", []SOp{add("a/k", 1), add("b/k", 2), {K: "walksortederr", V: 1}, del("*"), {K: "walkerr", V: 0}, add("c", 3)}, []int{0, 0, 1, 1}, 80, 1000},
		// the same interactions four and five levels down (lock coupling must not depend on depth)
		{"deep-hold-get", []SOp{add("a/b/c/d", 1), hold("a/b/c/d", 5), get("a/b/c/d"), del("a/b"), add("a/b/c/d", 7)}, []int{0, 0}, 60, 1000},
		{"deep-upgrade", []SOp{add("a/b/c/x/y", 1), add("a/b/c/z/w", 2), add("a/b/c/x/v", 3), del("a/b/c/x")}, nil, 80, 2000},
		{"deep-query-park", []SOp{add("a/b/c/d", 1), add("a/b/c/e", 2), qry("a/b/*/d"), del("a/*/c"), add("a/b/c/f/g", 3)}, []int{0, 0, 1, 1}, 60, 1000},
		// a Delete with a glob in the middle, blocked on a held leaf below it: every
		// node it has passed must be write-locked (also the ones reached through the glob)
		{"hold-delete-midglob", []SOp{add("a/k", 1), add("b/k", 2), hold("a/k", 5), del("*/k"), get("b/k")}, []int{0, 0, 1, 1}, 60, 1000},
		{"hold-delete-deepglob", []SOp{add("a/x/k", 1), add("a/y/k", 2), hold("a/y/k", 5), del("a/*/k"), hold("a/x/k", 6)}, []int{0, 0, 1, 1}, 60, 1000},
		{"two-holds-get", []SOp{add("a/b", 1), hold("a/b", 5), get("a/b"), del("a"), hold("a/b", 6)}, []int{0, 0}, 60, 2000},
		{"hold-get-add", []SOp{add("a/b", 1), add("a/c", 2), hold("a/b", 5), get("a/b"), add("a/b", 7), get("a/c"), del("a/b")}, []int{0, 0, 1, 1}, 80, 3000},
		{"two-deleters", []SOp{add("a/b", 1), add("a/c/d", 2), del("a/b"), del("a"), add("a/c/e", 3)}, []int{0, 0}, 80, 3000},
	}
}

var randOps = func(r *vh.Rand) SOp {
	paths := []string{"a", "a/b", "a/b/c", "a/c", "a/b/d", "d", "d/e"}
	p := P(paths[r.Intn(len(paths))])
	switch r.Pick(50, 12, 10, 18, 10, 8, 8) {
	case 6:
		return SOp{K: []string{"walk", "walksorted", "walkerr", "walksortederr"}[r.Intn(4)], P: []string{}, V: int64(r.Intn(2))}
	case 5:
		return SOp{K: "queryerr", P: p, V: int64(r.Intn(2))}
	case 0:
		return SOp{K: "add", P: p, V: int64(1 + r.Intn(9))}
	case 1:
		return SOp{K: "getval", P: p}
	case 2:
		return SOp{K: "query", P: p}
	case 3:
		dp := []string{"a", "a/b", "*", "", "a/*", "d", "a/b/c"}
		return SOp{K: "delete", P: P(dp[r.Intn(len(dp))])}
	default:
		return SOp{K: "hold", P: p, V: int64(10 + r.Intn(9))}
	}
}

// ---------------------------------------------------------------------------
// mode A through a child process

type childOut struct {
	WL     Workload `json:"wl"`
	Wins   []Window `json:"wins"`
	Stress *Stress  `json:"stress,omitempty"`
}

func childMain(spec, outFile string) {
	ctree.VerifHook = hookDispatch
	var wls []Workload
	if err := json.Unmarshal([]byte(spec), &wls); err != nil {
		vh.Die("child spec: %v", err)
	}
	f, err := os.Create(outFile)
	if err != nil {
		vh.Die("child out: %v", err)
	}
	enc := json.NewEncoder(f)
	hangs := 0
	for _, wl := range wls {
		if hangs >= 2 {
			break // two deadlocks observed in this batch: enough, the rest would only wait
		}
		var co childOut
		switch wl.Kind {
		case "hammer":
			st := runHammer(wl)
			co = childOut{WL: wl, Stress: &st}
		case "api":
			st := runAPI(wl)
			co = childOut{WL: wl, Stress: &st}
		default:
			co = childOut{WL: wl, Wins: runWorkload(wl)}
		}
		if co.Stress != nil && co.Stress.Bad == 2 {
			hangs++
		}
		for _, w := range co.Wins {
			if w.Hung {
				hangs++
			}
		}
		if err := enc.Encode(co); err != nil {
			vh.Die("child encode: %v", err)
		}
		f.Sync()
	}
	f.Close()
}

func (e *emitter) modeA(family string, wls []Workload, out string, tag string) {
	if len(wls) == 0 {
		return
	}
	spec, _ := json.Marshal(wls)
	file := fmt.Sprintf("%s/modea_%s.jsonl", out, tag)
	cmd := exec.Command(os.Args[0], "-out", out, "-child-spec", string(spec), "-child-out", file)
	cmd.Env = os.Environ()
	b, err := cmd.CombinedOutput()
	done := map[uint64]bool{}
	if f, ferr := os.Open(file); ferr == nil {
		dec := json.NewDecoder(f)
		for {
			var co childOut
			if dec.Decode(&co) != nil {
				break
			}
			done[co.WL.Seed] = true
			if co.Stress != nil {
				wl := co.WL
				c := Case{Family: family, Kind: "stress", WL: &wl, Stress: co.Stress}
				canon, _ := json.Marshal(co)
				e.put(c, string(canon), co.Stress.Ops > 0, map[string]interface{}{"family": family, "kind": wl.Kind, "goroutines": wl.G, "ops_completed": co.Stress.Ops, "bad": co.Stress.Bad, "msg": co.Stress.Msg})
				e.meta.Hist(fmt.Sprintf("stress:%s:bad=%d", wl.Kind, co.Stress.Bad))
				continue
			}
			e.addWindows(family, co.WL, co.Wins)
			for _, w := range co.Wins {
				if w.Hung {
					e.addEvent(family+"-hang", 2, fmt.Sprintf("workload seed %d hung", co.WL.Seed))
				}
			}
		}
		f.Close()
	}
	if err != nil {
		msg := string(b)
		if len(msg) > 600 {
			msg = msg[:600]
		}
		first := strings.SplitN(msg, "\n", 2)[0]
		e.addEvent(family+"-crash", 1, first)
		// continue with the workloads after the one that crashed
		var rest []Workload
		skipped := false
		for _, wl := range wls {
			if done[wl.Seed] {
				continue
			}
			if !skipped {
				skipped = true // this one crashed the child
				continue
			}
			rest = append(rest, wl)
		}
		if len(rest) > 0 && len(rest) < len(wls) {
			e.modeA(family, rest, out, tag+"r")
		}
	}
	os.Remove(file)
}

// ---------------------------------------------------------------------------

func readCases(path string) []Case {
	b, err := os.ReadFile(path)
	if err != nil {
		vh.Die("read %s: %v", path, err)
	}
	var cs []Case
	if json.Unmarshal(b, &cs) != nil {
		var one Case
		if err := json.Unmarshal(b, &one); err != nil {
			vh.Die("%s unreadable: %v", path, err)
		}
		cs = []Case{one}
	}
	return cs
}

func (e *emitter) replayCases(family string, cs []Case, out string) {
	for i, c := range cs {
		switch c.Kind {
		case "sched":
			e.addSched(family, c.Prog, c.Ops)
		case "win", "stress":
			if c.WL != nil {
				e.modeA(family, []Workload{*c.WL}, out, fmt.Sprintf("replay%d", i))
			}
		case "event":
			// process-level events cannot be re-observed from a case; ignore
		}
	}
}

func main() {
	childSpec := flag.String("child-spec", "", "internal: workloads to run (JSON)")
	childOutF := flag.String("child-out", "", "internal: where the child writes its windows")
	raceOnly := flag.Bool("race-workload", false, "run only the free-running workload (used with a -race build)")
	o := vh.ParseFlags()
	flag.Set("stderrthreshold", "FATAL")
	if *childSpec != "" {
		childMain(*childSpec, *childOutF)
		return
	}
	ctree.VerifHook = hookDispatch
	if *raceOnly {
		raceWorkload(o.Seed)
		return
	}

	meta := vh.NewMeta("forced schedules (mode S): per scenario every schedule (depth-first, capped) of starting/releasing workers parked at add:upgrade, in a Query visitor or inside a paused Leaf.Update, plus random schedules of random programs; distinct = distinct (program, executed schedule), non-trivial = at some observation at least two workers were in flight (parked or blocked). free-running windows (mode A): 2..16 goroutines, <=8 operations per window on 8 overlapping leaf paths, every second workload (windows, hammer, api) storing the values in an uncomparable struct type (a slice field) instead of int64; distinct = distinct recorded history, non-trivial = two operations of different goroutines overlap in time and one of them writes")
	e := &emitter{dir: o.Out, cf: vh.NewCaseFile(), meta: meta, limit: 250}

	if o.Replay != "" {
		e.replayCases("replay", readCases(o.Replay), o.Out)
		e.flush()
		meta.Write(o.Out)
		return
	}

	if dir := os.Getenv("VERIF_CORPUS"); dir != "" {
		ents, _ := os.ReadDir(dir)
		var names []string
		for _, en := range ents {
			if strings.HasSuffix(en.Name(), ".json") {
				names = append(names, en.Name())
			}
		}
		sort.Strings(names)
		for _, nm := range names {
			e.replayCases("corpus", readCases(dir+"/"+nm), o.Out)
		}
	}

	// race-detector reports handed over by the orchestrator (thorough tier)
	if rf := os.Getenv("VERIF_C10_RACE"); rf != "" {
		if b, err := os.ReadFile(rf); err == nil {
			var rr struct {
				KF    int    `json:"kf"`
				Other int    `json:"other"`
				Msg   string `json:"msg"`
			}
			if json.Unmarshal(b, &rr) == nil {
				if rr.KF > 0 {
					e.addEvent("race", 3, "race report")
				}
				if rr.Other > 0 {
					e.addEvent("race", 4, rr.Msg)
				}
				meta.Extra["race_reports_known_finding"] = rr.KF
				meta.Extra["race_reports_other"] = rr.Other
			}
		}
	}

	r := vh.NewRand(o.Seed)
	total := 0
	for _, sc := range scenarios() {
		max := sc.max
		if o.Thorough() {
			max = sc.thor
		}
		n := e.explore("S:"+sc.name, sc.prog, sc.prefix, max)
		meta.Extra["schedules:"+sc.name] = n
		total += n
	}
	// the same schedule many times: after its last controller action a deleter,
	// a writer queued behind it and a blocked adder run truly concurrently, so
	// every repetition samples one real interleaving of that settle phase
	{
		prog := []SOp{{K: "add", P: P("d"), V: 9}, {K: "add", P: P("a/b/d"), V: 2}, {K: "add", P: P("a/b/c"), V: 4}, {K: "add", P: P("a"), V: 8}, {K: "delete", P: P("*")}}
		sched := []int{0, 1, 1, 2, 3, 4, 0, 2}
		n := 250
		if o.Thorough() {
			n = 3000
		}
		for i := 0; i < n; i++ {
			e.addSched("S:settle-stress", prog, sched)
		}
	}
	nprog, nwalk := 150, 5
	if o.Thorough() {
		nprog, nwalk = 1200, 8
	}
	for i := 0; i < nprog; i++ {
		rr := r.Fork()
		k := 3 + rr.Intn(3)
		prog := make([]SOp, k)
		for j := range prog {
			prog[j] = randOps(rr)
		}
		e.randomWalks("S:random", prog, rr, nwalk)
	}

	nwl := 120
	if o.Thorough() {
		nwl = 900
	}
	var wls []Workload
	for i := 0; i < nwl; i++ {
		wls = append(wls, Workload{Seed: r.U64(), G: 2 + r.Intn(15), Windows: 10, Box: i%2 == 1})
	}
	// batches, so that one crash costs little
	for b := 0; b*20 < len(wls); b++ {
		hi := (b + 1) * 20
		if hi > len(wls) {
			hi = len(wls)
		}
		e.modeA("A:windows", wls[b*20:hi], o.Out, fmt.Sprintf("b%d", b))
		if meta.Histogram["win:hang"] >= 2 {
			break // deadlocks observed: the remaining batches would only wait for the watchdog
		}
	}
	// stress runs: readers vs writers on one leaf, and every exported method
	nh, na, per := 40, 12, 400
	if o.Thorough() {
		nh, na, per = 400, 120, 1000
	}
	var sw []Workload
	for i := 0; i < nh; i++ {
		sw = append(sw, Workload{Kind: "hammer", Seed: r.U64(), G: 4, Windows: per, Box: i%2 == 1})
	}
	for b := 0; b*10 < len(sw); b++ {
		hi := (b + 1) * 10
		if hi > len(sw) {
			hi = len(sw)
		}
		e.modeA("A:hammer", sw[b*10:hi], o.Out, fmt.Sprintf("h%d", b))
		if meta.Histogram["stress:hammer:bad=2"] >= 2 {
			break // two deadlocks observed: enough
		}
	}
	sw = nil
	for i := 0; i < na; i++ {
		sw = append(sw, Workload{Kind: "api", Seed: r.U64(), G: 2 + r.Intn(15), Windows: per, Box: i%2 == 1})
	}
	e.modeA("A:api", sw, o.Out, "api")
	e.flush()
	meta.Exhaustive = false
	if err := meta.Write(o.Out); err != nil {
		vh.Die("meta: %v", err)
	}
}

// Barrier scheduler for forced schedules (mode S).
//
// Every worker goroutine executes one API call on one shared tree.  Workers
// park (a) at the ctree hook point add:upgrade, (b) inside the visitor of a
// Query, (c) inside the critical section of a paused Leaf.Update ("hold").
// The controller advances one worker at a time (starts it, or releases it
// from where it is parked) and then waits until the whole system is inert:
// every started worker is parked, finished, or blocked inside a sync mutex
// (recognised from its goroutine state in a runtime.Stack dump, never from a
// timeout).  Then it records every worker's status and probes every node's
// mutex.  All of this is deterministic for a given schedule.
package main

import (
	"fmt"
	"os"
	"regexp"
	"runtime"
	"strconv"
	"sync"
	"sync/atomic"
	"time"

	"github.com/openconfig/gnmi/ctree"
)

// SOp is one worker's API call.  K: add getval query delete hold.
type SOp struct {
	K string   `json:"k"`
	P []string `json:"p"`
	V int64    `json:"v,omitempty"`
}

// LeafObs is one (path, value).
type LeafObs struct {
	P []string `json:"p"`
	V int64    `json:"v"`
}

// Res is the projected result of a call.  Kind: add val paths leaves unit panic hang.
type Res struct {
	Kind   string     `json:"kind"`
	OK     bool       `json:"ok,omitempty"`
	Has    bool       `json:"has,omitempty"`
	V      int64      `json:"v,omitempty"`
	Paths  [][]string `json:"paths,omitempty"`
	Leaves []LeafObs  `json:"leaves,omitempty"`
	Msg    string     `json:"msg,omitempty"`
}

// LockObs is the probed state of one node's mutex.
type LockObs struct {
	P []string `json:"p"`
	C int      `json:"c"`
}

// SStep is what was observed after one controller action.
type SStep struct {
	Tid    int       `json:"tid"`
	Status []int     `json:"status"` // 0 not started, 1 parked, 2 blocked in a mutex, 3 finished
	Locks  []LockObs `json:"locks"`
	Dbg    string    `json:"dbg,omitempty"`
}

type worker struct {
	id      int
	op      SOp
	goid    int64 // set by the goroutine itself before it does anything else
	started bool
	parked  int32
	done    int32
	release chan struct{}
	res     Res
	handle  *ctree.Leaf
}

type controller struct {
	tree     *ctree.Tree
	ws       []*worker
	mu       sync.Mutex
	byGoid   map[int64]*worker
	steps    []SStep
	hung     bool
	timeout  time.Duration
	lastDump string
}

var goidRe = regexp.MustCompile(`^goroutine (\d+) \[`)
var gStateRe = regexp.MustCompile(`(?m)^goroutine (\d+) \[([^\],]+)`)

func curGoid() int64 {
	var buf [64]byte
	n := runtime.Stack(buf[:], false)
	m := goidRe.FindSubmatch(buf[:n])
	if m == nil {
		return -1
	}
	id, _ := strconv.ParseInt(string(m[1]), 10, 64)
	return id
}

// the controller currently installed as the ctree hook (one at a time)
var active atomic.Pointer[controller]

func hookDispatch(point string) {
	c := active.Load()
	if c == nil {
		modeAHook()
		return
	}
	g := curGoid()
	c.mu.Lock()
	w := c.byGoid[g]
	c.mu.Unlock()
	if w != nil {
		w.park()
	}
}

func (w *worker) park() {
	atomic.StoreInt32(&w.parked, 1)
	<-w.release
}

func newController(prog []SOp) *controller {
	c := &controller{tree: &ctree.Tree{}, byGoid: map[int64]*worker{}, timeout: 10 * time.Second}
	for i, o := range prog {
		c.ws = append(c.ws, &worker{id: i, op: o, release: make(chan struct{})})
	}
	return c
}

func cpPath(p []string) []string { return append([]string{}, p...) }

// The tree stores any interface{}: half of the workloads store the numbers as
// they are (comparable), the other half wrapped in a struct with a slice field
// (an UNCOMPARABLE dynamic type: == on two of them panics at run time).
// boxed is set before the goroutines of a workload / schedule are started.
var boxed bool

type box struct {
	n   int64
	pad []byte
}

func mkval(x int64) interface{} {
	if boxed {
		return box{n: x, pad: []byte{1}}
	}
	return x
}

func unval(v interface{}) (int64, bool) {
	switch x := v.(type) {
	case int64:
		return x, !boxed
	case box:
		return x.n, boxed
	}
	return 0, false
}

func (c *controller) runOp(w *worker) (res Res) {
	defer func() {
		if r := recover(); r != nil {
			res = Res{Kind: "panic", Msg: fmt.Sprint(r)}
		}
	}()
	res = applyOp(c.tree, w.op, w.handle, w.park)
	if res.Kind == "delvals" {
		out := make([][]string, 0, len(res.Paths))
		for _, v := range res.Paths {
			var hit [][]string
			for _, x := range c.ws {
				if (x.op.K == "add" || x.op.K == "hold") && fmt.Sprint(x.op.V) == v[0] {
					hit = append(hit, cpPath(x.op.P))
				}
			}
			if len(hit) != 1 {
				panic(fmt.Sprintf("walkdel: value %s names %d paths", v[0], len(hit)))
			}
			out = append(out, hit[0])
		}
		res = Res{Kind: "paths", Paths: out}
	}
	return res
}

// applyOp performs one call on the real tree.  park (may be nil) is called
// inside Query's visitor and inside a hold's critical section.
func applyOp(t *ctree.Tree, o SOp, handle *ctree.Leaf, park func()) Res {
	switch o.K {
	case "add":
		err := t.Add(o.P, mkval(o.V))
		return Res{Kind: "add", OK: err == nil}
	case "getval":
		v := t.GetLeafValue(o.P)
		if v == nil {
			return Res{Kind: "val"}
		}
		if x, ok := unval(v); ok {
			return Res{Kind: "val", Has: true, V: x}
		}
		// a branch's map is not a value: Tree.Value returns nil for branches
		panic(fmt.Sprintf("GetLeafValue returned %T", v))
	case "query":
		var ls []LeafObs
		err := t.Query(o.P, func(path []string, _ *ctree.Leaf, val interface{}) error {
			x, ok := unval(val)
			if !ok {
				panic(fmt.Sprintf("visited a non-value %T", val))
			}
			ls = append(ls, LeafObs{P: cpPath(path), V: x})
			if park != nil {
				park()
			}
			return nil
		})
		if err != nil {
			panic(err)
		}
		return Res{Kind: "leaves", Leaves: ls}
	case "queryerr":
		// Query whose visitor returns an error at its (V+1)-th call
		n := int64(0)
		failed := false
		var seen []LeafObs
		errStop := fmt.Errorf("visitor says stop")
		err := t.Query(o.P, func(path []string, _ *ctree.Leaf, val interface{}) error {
			x, ok := unval(val)
			if !ok {
				panic(fmt.Sprintf("visited a non-value %T", val))
			}
			seen = append(seen, LeafObs{P: cpPath(path), V: x})
			if park != nil {
				park()
			}
			n++
			if n == o.V+1 {
				failed = true
				return errStop
			}
			return nil
		})
		if err == nil && failed {
			return Res{Kind: "swallowed"} // the visitor's error did not come back
		}
		if err == nil {
			return Res{Kind: "leaves", Leaves: seen} // fewer than V+1 leaves matched: it completed
		}
		if err != errStop {
			panic(err)
		}
		return Res{Kind: "qerr"}
	case "walk", "walksorted", "walkerr", "walksortederr":
		// Walk / WalkSorted with a visitor that parks at every call and, for the
		// *err kinds, returns an error at its (V+1)-th call
		fails := o.K == "walkerr" || o.K == "walksortederr"
		failed := false
		n := int64(0)
		var seen []LeafObs
		errStop := fmt.Errorf("visitor says stop")
		vf := func(path []string, _ *ctree.Leaf, val interface{}) error {
			x, ok := unval(val)
			if !ok {
				panic(fmt.Sprintf("visited a non-value %T", val))
			}
			seen = append(seen, LeafObs{P: cpPath(path), V: x})
			if park != nil {
				park()
			}
			n++
			if fails && n == o.V+1 {
				failed = true
				return errStop
			}
			return nil
		}
		var err error
		if o.K == "walk" || o.K == "walkerr" {
			err = t.Walk(vf)
		} else {
			err = t.WalkSorted(vf)
		}
		if err == nil && failed {
			return Res{Kind: "swallowed"}
		}
		if err == nil {
			return Res{Kind: "leaves", Leaves: seen}
		}
		if err != errStop {
			panic(err)
		}
		return Res{Kind: "qerr"}
	case "delcond":
		ps := t.DeleteConditional(o.P, func(interface{}) bool { return true })
		out := make([][]string, len(ps))
		for i, p := range ps {
			out[i] = cpPath(p)
		}
		return Res{Kind: "paths", Paths: out}
	case "walkdel":
		// WalkDeleted reports removed values only; the scenarios that use it give
		// every add / paused update its own value, so the values name the paths
		var vals []int64
		t.WalkDeleted(o.P, func(interface{}) bool { return true }, func(x interface{}) { y, _ := unval(x); vals = append(vals, y) })
		out := make([][]string, len(vals))
		for i, v := range vals {
			out[i] = []string{fmt.Sprint(v)}
		}
		return Res{Kind: "delvals", Paths: out}
	case "delete":
		ps := t.Delete(o.P)
		out := make([][]string, len(ps))
		for i, p := range ps {
			out[i] = cpPath(p)
		}
		return Res{Kind: "paths", Paths: out}
	case "hold":
		if handle != nil {
			if park != nil {
				handle.VerifUpdatePaused(mkval(o.V), park)
			} else {
				handle.Update(mkval(o.V))
			}
		}
		return Res{Kind: "unit"}
	case "hval":
		if handle == nil {
			return Res{Kind: "val"}
		}
		switch x := handle.Value().(type) {
		case int64:
			return Res{Kind: "val", Has: true, V: x}
		default:
			return Res{Kind: "val"}
		}
	}
	panic("unknown op " + o.K)
}

// status of worker w given flags read BEFORE the stack dump and the dump.
func (c *controller) inert() (bool, []int) {
	type fl struct{ parked, done bool }
	flags := make([]fl, len(c.ws))
	goids := make([]int64, len(c.ws))
	c.mu.Lock()
	for i, w := range c.ws {
		flags[i] = fl{atomic.LoadInt32(&w.parked) == 1, atomic.LoadInt32(&w.done) == 1}
		goids[i] = w.goid
	}
	c.mu.Unlock()
	need := false
	for i, w := range c.ws {
		if w.started && !flags[i].parked && !flags[i].done {
			need = true
		}
	}
	states := map[int64]string{}
	c.lastDump = ""
	if need {
		buf := make([]byte, 1<<16)
		n := runtime.Stack(buf, true)
		for n == len(buf) && len(buf) < 1<<24 {
			buf = make([]byte, 4*len(buf))
			n = runtime.Stack(buf, true)
		}
		if os.Getenv("VERIF_C10_DEBUG") != "" {
			c.lastDump = string(buf[:n])
		}
		for _, m := range gStateRe.FindAllSubmatch(buf[:n], -1) {
			id, _ := strconv.ParseInt(string(m[1]), 10, 64)
			states[id] = string(m[2])
		}
	}
	st := make([]int, len(c.ws))
	for i, w := range c.ws {
		switch {
		case !w.started:
			st[i] = 0
		case flags[i].done:
			st[i] = 3
		case flags[i].parked:
			st[i] = 1
		default:
			s := states[goids[i]]
			switch s {
			case "sync.RWMutex.RLock", "sync.RWMutex.Lock", "sync.Mutex.Lock":
				// (the generic reason "semacquire" is NOT a mutex: the runtime parks
				// goroutines there during GC start, e.g. inside an allocation)
				st[i] = 2
			default:
				return false, nil
			}
		}
	}
	return true, st
}

func (c *controller) waitInert() []int {
	deadline := time.Now().Add(c.timeout)
	spins := 0
	for {
		ok, st := c.inert()
		if ok {
			return st
		}
		if time.Now().After(deadline) {
			c.hung = true
			return nil
		}
		spins++
		if spins < 50 {
			runtime.Gosched()
		} else {
			time.Sleep(20 * time.Microsecond)
		}
	}
}

// candidates: workers the controller can act on (lowest not-started worker,
// every parked worker).
func (c *controller) candidates(st []int) []int {
	var out []int
	first := true
	for i := range c.ws {
		if st[i] == 1 {
			out = append(out, i)
		}
		if st[i] == 0 && first {
			out = append(out, i)
			first = false
		}
	}
	return out
}

func (c *controller) status() []int {
	st := make([]int, len(c.ws))
	for i, w := range c.ws {
		switch {
		case !w.started:
			st[i] = 0
		case atomic.LoadInt32(&w.done) == 1:
			st[i] = 3
		case atomic.LoadInt32(&w.parked) == 1:
			st[i] = 1
		default:
			st[i] = 2
		}
	}
	return st
}

// advance acts on worker i; false if nothing can be done with it.
func (c *controller) advance(i int) bool {
	if i < 0 || i >= len(c.ws) || c.hung {
		return false
	}
	w := c.ws[i]
	switch {
	case !w.started:
		w.started = true
		if w.op.K == "hold" {
			// handles to leaves only (see C10Check.cop_of)
			if l := c.tree.VerifResolve(w.op.P); l != nil && l.VerifIsLeaf() {
				w.handle = l
			}
		}
		go func() {
			g := curGoid()
			c.mu.Lock()
			w.goid = g
			c.byGoid[g] = w
			c.mu.Unlock()
			w.res = c.runOp(w)
			atomic.StoreInt32(&w.done, 1)
		}()
	case atomic.LoadInt32(&w.done) == 1:
		return false
	case atomic.LoadInt32(&w.parked) == 1:
		atomic.StoreInt32(&w.parked, 0)
		w.release <- struct{}{}
	default:
		return false // blocked in a mutex: not ours to move
	}
	st := c.waitInert()
	if st == nil {
		return true
	}
	var locks []LockObs
	for _, l := range c.tree.VerifLockSnapshot() {
		locks = append(locks, LockObs{P: l.Path, C: l.Class})
	}
	c.steps = append(c.steps, SStep{Tid: i, Status: st, Locks: locks, Dbg: c.lastDump})
	return true
}

// SchedResult is everything observed while executing one schedule.
type SchedResult struct {
	Steps   []SStep
	Results []Res
	Final   []LeafObs
	Hung    bool
	Status  []int // after the requested schedule, before completion
	NSched  int   // observations made by the requested schedule itself
}

// runSchedule executes the schedule on a fresh tree.  With complete=true the
// remaining workers are then driven to the end in index order.
func runSchedule(prog []SOp, sched []int, complete bool) SchedResult {
	// A deadlock of the code under test is an INERT state (every worker parked,
	// finished or blocked in a mutex) and is reported through the statuses.  A
	// timeout of waitInert means that some worker stayed runnable/running
	// without getting anywhere for 10 s -- on a loaded machine that is
	// starvation of the harness, not an observation: execute the schedule again.
	var r SchedResult
	for attempt := 0; attempt < 3; attempt++ {
		r = runScheduleOnce(prog, sched, complete)
		if !r.Hung {
			break
		}
	}
	return r
}

func runScheduleOnce(prog []SOp, sched []int, complete bool) SchedResult {
	// value type of this execution: a function of the schedule (replayable)
	h := len(sched)
	for _, x := range sched {
		h += x
	}
	boxed = h%2 == 1
	c := newController(prog)
	active.Store(c)
	defer active.Store(nil)
	for _, i := range sched {
		c.advance(i)
	}
	statusAfter := c.status()
	nSched := len(c.steps)
	if complete {
		for guard := 0; guard < 200 && !c.hung; guard++ {
			cands := c.candidates(c.status())
			if len(cands) == 0 {
				break
			}
			c.advance(cands[0])
		}
	}
	out := SchedResult{Steps: c.steps, Hung: c.hung, Status: statusAfter, NSched: nSched}
	all := true
	for _, w := range c.ws {
		if atomic.LoadInt32(&w.done) == 1 {
			out.Results = append(out.Results, w.res)
		} else {
			all = false
			out.Results = append(out.Results, Res{Kind: "hang"})
		}
	}
	if all {
		active.Store(nil)
		_ = c.tree.Walk(func(path []string, _ *ctree.Leaf, val interface{}) error {
			if x, ok := unval(val); ok {
				out.Final = append(out.Final, LeafObs{P: cpPath(path), V: x})
			} else {
				out.Final = append(out.Final, LeafObs{P: cpPath(path), V: -999})
			}
			return nil
		})
	}
	return out
}

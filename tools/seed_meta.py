#!/usr/bin/env python3
"""Normalises seeded/<id>/<name>/meta.json from the author's meta_author.json (keeps check_result)."""
import json, os, glob
ROOT = os.path.dirname(os.path.dirname(os.path.abspath(__file__)))
for d in sorted(glob.glob(os.path.join(ROOT, "seeded", "*", "*"))):
    a = os.path.join(d, "meta_author.json")
    m = os.path.join(d, "meta.json")
    meta = json.load(open(m)) if os.path.exists(m) else {}
    if os.path.exists(a):
        try:
            au = json.load(open(a))
        except Exception:
            au = {"summary": open(a).read()}
        meta.setdefault("property", os.path.basename(os.path.dirname(d)))
        meta["summary"] = au.get("summary", "")
        meta["needs_to_manifest"] = au.get("needs", "")
        meta["files"] = au.get("files", [])
        meta["origin"] = "independent sub-agent given only the property text and a scratch worktree of the repository (nothing from /verif)"
        meta["confirmed"] = ("tools/seed_confirm.sh on a scratch worktree: demo_test.go fails with the change and passes without it; "
                             "go build ./... and go test -vet=off -count=1 ./... pass with the change (see confirm.log)")
        json.dump(meta, open(m, "w"), indent=1)
        os.remove(a)
print("ok")

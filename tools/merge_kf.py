#!/usr/bin/env python3
"""Rebuilds known_findings.json from known_findings.d/Cxx.json (one hand-written file per
property, so that people working on different properties do not edit the same file).
Run by hand after editing; never run by a check."""
import fcntl
import glob
import json
import os

ROOT = os.path.dirname(os.path.dirname(os.path.abspath(__file__)))
out = {"comment": "Committed by hand (merged from known_findings.d/ by tools/merge_kf.py); never written at run time. "
                  "'open' entries are genuine defects recorded rather than repaired (each with the narrow class its Coq "
                  "checker recognises by tag); 'fixed' entries suppress nothing.",
       "open": [], "fixed": []}
with open(os.path.join(ROOT, "build", "kf.lock") if os.path.isdir(os.path.join(ROOT, "build")) else os.devnull, "w") as lk:
    try:
        fcntl.flock(lk, fcntl.LOCK_EX)
    except OSError:
        pass
    for f in sorted(glob.glob(os.path.join(ROOT, "known_findings.d", "*.json"))):
        d = json.load(open(f))
        out["open"] += d.get("open", [])
        out["fixed"] += d.get("fixed", [])
    tmp = os.path.join(ROOT, "known_findings.json.tmp")
    json.dump(out, open(tmp, "w"), indent=1)
    os.replace(tmp, os.path.join(ROOT, "known_findings.json"))
print("known_findings.json: %d open, %d fixed" % (len(out["open"]), len(out["fixed"])))

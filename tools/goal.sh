#!/bin/sh
# usage: tools/goal.sh <file.v relative to coq/> <line> [tail-lines]  -- prints the goals after that line
cd "$(dirname "$0")/../coq"
mkdir -p /root/scratch
T=$(mktemp /root/scratch/_goal_XXXXXX.v)
head -n "$2" "$1" > "$T"
printf '\nShow.\n' >> "$T"
timeout 120 coqtop -Q . Gnmi -batch -l "$T" 2>&1 | grep -v "^Welcome\|conda" | tail -${3:-40}
rm -f "$T"

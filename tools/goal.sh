#!/bin/sh
# usage: tools/goal.sh <file.v relative to coq/> <line>   -- prints the goals after that line
cd "$(dirname "$0")/../coq"
head -n "$2" "$1" > /root/scratch/_goal.v
printf '\nShow.\n' >> /root/scratch/_goal.v
timeout 120 coqtop -Q . Gnmi -batch -l /root/scratch/_goal.v 2>&1 | grep -v "^Welcome\|conda" | tail -${3:-40}

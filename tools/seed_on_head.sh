#!/bin/bash
# usage: seed_on_head.sh <id> <name>  -- applies the seed to a worktree of /repo HEAD and runs its demo there
ID=$1; NAME=$2; D=/verif/seeded/$ID/$NAME
export GOFLAGS=-mod=mod GOPROXY=off GOSUMDB=off GOTOOLCHAIN=local
WT=/tmp/seedhead_${ID}_$NAME
git -C /repo worktree add --detach -q $WT HEAD
P=$D/patch.diff; [ -f $D/patch_rebased.diff ] && P=$D/patch_rebased.diff
cd $WT
if ! git apply $P 2>/dev/null; then echo "PATCH-CONFLICT $ID/$NAME"; git apply --3way $P 2>&1 | tail -2; git diff --name-only --diff-filter=U; echo "worktree left at $WT"; exit 1; fi
PKG=$(head -1 $D/demo_test.go | sed -n 's|^// *dir: *\([A-Za-z0-9_/]*\).*|\1|p'); [ -n "$PKG" ] || PKG=$3
cp $D/demo_test.go $PKG/zz_seed_demo_test.go
go test -vet=off -count=1 ./$PKG/ -run "$(grep -o 'func Test[A-Za-z0-9_]*' $PKG/zz_seed_demo_test.go | sed 's/func //' | paste -sd'|')" > /tmp/seedhead.log 2>&1; RC=$?
tail -5 /tmp/seedhead.log
echo "demo-on-HEAD-with-change rc=$RC ($ID/$NAME)"
cd /; git -C /repo worktree remove --force $WT

#!/usr/bin/env python3
"""usage: seed_run.py <prop id> [name ...] [--tier quick|thorough] [--in-repo]
Runs ./check <id> against every seeded change of that property (seeded/<id>/<name>/patch.diff)
applied to a scratch worktree of /repo's HEAD (or, with --in-repo, applied to /repo itself and
undone straight afterwards), and records the outcome in seeded/<id>/<name>/meta.json."""
import json, os, subprocess, sys, time
ROOT = os.path.dirname(os.path.dirname(os.path.abspath(__file__)))
args = [a for a in sys.argv[1:] if not a.startswith("--")]
tier = "quick"
if "--tier" in sys.argv:
    tier = sys.argv[sys.argv.index("--tier") + 1]
    args.remove(tier)
inrepo = "--in-repo" in sys.argv
pid = args[0]
names = args[1:] or sorted(os.listdir(os.path.join(ROOT, "seeded", pid)))
for name in names:
    d = os.path.join(ROOT, "seeded", pid, name)
    patch = os.path.join(d, "patch.diff")
    if not os.path.exists(patch):
        continue
    if os.path.exists(os.path.join(d, "patch_rebased.diff")):   # same change, re-based onto later fix commits
        patch = os.path.join(d, "patch_rebased.diff")
    if inrepo:
        wt = "/repo"
        subprocess.run(["git", "-C", "/repo", "apply", patch], check=True)
    else:
        wt = "/tmp/seedrun_%s_%d" % (pid, os.getpid())
        subprocess.run(["git", "-C", "/repo", "worktree", "add", "--detach", "-q", wt, "HEAD"], check=True)
        if subprocess.run(["git", "-C", wt, "apply", patch]).returncode != 0:
            if subprocess.run(["git", "-C", wt, "apply", "--3way", patch]).returncode != 0:
                subprocess.run(["git", "-C", "/repo", "worktree", "remove", "--force", wt])
                print("%s/%s: PATCH DOES NOT APPLY to HEAD (re-base it as patch_rebased.diff)" % (pid, name))
                continue
    t0 = time.time()
    try:
        p = subprocess.run([os.path.join(ROOT, "check"), pid, "--tier", tier], cwd=ROOT,
                           env=dict(os.environ, VERIF_REPO=wt, VERIF_NO_EVIDENCE="1"),
                           stdout=subprocess.PIPE, stderr=subprocess.STDOUT, text=True)
    finally:
        if inrepo:
            subprocess.run(["git", "-C", "/repo", "checkout", "--", "."], check=True)
        else:
            subprocess.run(["git", "-C", "/repo", "worktree", "remove", "--force", wt])
    lines = [l for l in p.stdout.split("\n") if l.startswith("VIOLATION") or l.startswith(pid + ":")]
    det = any(l.startswith("VIOLATION") for l in lines) and p.returncode == 1
    mp = os.path.join(d, "meta.json")
    meta = json.load(open(mp)) if os.path.exists(mp) else {}
    meta.setdefault("property", pid)
    meta["check_result"] = dict(tier=tier, detected=det, exit=p.returncode, lines=lines,
                                secs=round(time.time() - t0, 1),
                                how="./check %s --tier %s with the patch applied to %s" % (pid, tier, "/repo (undone afterwards)" if inrepo else "a scratch worktree of /repo HEAD (VERIF_REPO)"))
    json.dump(meta, open(mp, "w"), indent=1)
    print("%s/%s: %s  %s" % (pid, name, "DETECTED" if det else "MISSED (exit %d)" % p.returncode, " | ".join(lines)))

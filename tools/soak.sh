#!/bin/bash
# usage: tools/soak.sh <seeds...>   -- runs every claimed check's quick tier with each seed, prints failures
cd "$(dirname "$0")/.."
IDS=$(python3 -c "import json;print(' '.join(json.load(open('tools/claimed.json'))))")
fail=0
for s in "$@"; do
  for p in $IDS; do
    out=$(VERIF_NO_EVIDENCE=1 ./check $p --tier quick --seed $s 2>&1); rc=$?
    line=$(echo "$out" | grep "^$p:" | tail -1)
    if [ $rc -ne 0 ] || echo "$out" | grep -q "^VIOLATION"; then fail=$((fail+1)); echo "FAIL seed=$s $p rc=$rc :: $line"; echo "$out" | grep -E "VIOLATION|harness|failed" | head -3; else echo "ok   seed=$s $line"; fi
  done
done
echo "soak done: $fail failures"

#!/usr/bin/env python3
"""usage: tie_coverage.py [Cxx ...] [--tier quick|thorough] [--seed N]

Measures how much of the Go code each property is anchored in is actually *driven* by that
property's correspondence harness -- the tie between the hand-written Gallina model and the
code is only as wide as the code the harness executes while Coq compares the two.

For each property: the harness is rebuilt from /repo's working tree exactly as ./check does
(overlay build, tag verif) but with Go's block-coverage instrumentation of the repository's
own packages (`go build -cover -coverpkg=github.com/openconfig/gnmi/...`), run once for the
given tier/seed with GOCOVERDIR set (child processes started by a harness inherit it), and
the per-function statement coverage of the files named by the property's `anchors.files`
in properties.jsonl is written to docs/COVERAGE.md and docs/coverage/<id>.json, together with
the functions of those files the run never entered and the partly covered ones.

This is NOT part of any verdict: no check reads it.  It is a measurement of the trusted tie
(which modelled code the correspondence run really exercised), used to direct generator work.
"""
import json
import os
import re
import shutil
import subprocess
import sys
import time

ROOT = os.path.dirname(os.path.dirname(os.path.abspath(__file__)))
sys.path.insert(0, os.path.join(ROOT, "lib"))
import vlib  # noqa: E402
from registry import CHECKS  # noqa: E402

MOD = "github.com/openconfig/gnmi"


def build_cov(name):
    """`go build -cover` does not read overlay files that exist only in the overlay, so the
    instrumented build is made in a scratch copy of the working tree with the harness files
    physically copied in (same file set as vlib.overlay); the copy is removed afterwards."""
    ov = json.load(open(vlib.overlay(name)))["Replace"]
    scratch = "/root/scratch/cov_%s_%d" % (name, os.getpid())
    shutil.rmtree(scratch, ignore_errors=True)
    os.makedirs("/root/scratch", exist_ok=True)
    vlib.sh(["rsync", "-a", "--exclude", ".git", vlib.REPO + "/", scratch + "/"], check=True)
    for dst, src in ov.items():
        d = os.path.join(scratch, os.path.relpath(dst, vlib.REPO))
        os.makedirs(os.path.dirname(d), exist_ok=True)
        shutil.copy(src, d)
    out = os.path.join(vlib.BUILD, "%s_cov" % name)
    cmd = ["go", "build", "-tags", "verif", "-cover", "-coverpkg=" + MOD + "/...",
           "-o", out, "./zz_verif/" + name]
    rc, log_ = vlib.sh(cmd, cwd=scratch, env=vlib.GOENV, timeout=1800)
    shutil.rmtree(scratch, ignore_errors=True)
    return (out if rc == 0 else None), log_


def func_cover(profile):
    """go tool cover -func on a text profile -> {file: {func: pct}}"""
    rc, out = vlib.sh(["go", "tool", "cover", "-func=" + profile], cwd=vlib.REPO, env=vlib.GOENV, timeout=600)
    res = {}
    for line in out.split("\n"):
        m = re.match(r"^(\S+):(\d+):\s+(\S+)\s+([\d.]+)%$", line.strip())
        if not m:
            continue
        f = m.group(1)
        if f.startswith(MOD + "/"):
            f = f[len(MOD) + 1:]
        res.setdefault(f, {})[m.group(3) + "@" + m.group(2)] = float(m.group(4))
    return res


def block_cover(profile):
    """{file: (covered statements, total statements)} from the text profile"""
    agg = {}
    for line in open(profile):
        m = re.match(r"^(\S+):(\d+)\.\d+,(\d+)\.\d+ (\d+) (\d+)$", line.strip())
        if not m:
            continue
        f = m.group(1)
        if f.startswith(MOD + "/"):
            f = f[len(MOD) + 1:]
        key = (f, m.group(2), m.group(3))
        n, hit = int(m.group(4)), int(m.group(5))
        old = agg.get(key, (n, 0))
        agg[key] = (n, max(old[1], hit))
    per = {}
    unc = {}
    for (f, a, b), (n, hit) in agg.items():
        c, t = per.get(f, (0, 0))
        per[f] = (c + (n if hit else 0), t + n)
        if not hit and n:
            unc.setdefault(f, []).append((int(a), int(b)))
    return per, unc


def main():
    args = [a for a in sys.argv[1:] if not a.startswith("--")]
    tier, seed = "quick", "1"
    if "--tier" in sys.argv:
        tier = sys.argv[sys.argv.index("--tier") + 1]
        args.remove(tier)
    if "--seed" in sys.argv:
        seed = sys.argv[sys.argv.index("--seed") + 1]
        args.remove(seed)
    props = {}
    for l in open(os.path.join(ROOT, "properties.jsonl")):
        p = json.loads(l)
        props[p["id"]] = p
    ids = args or sorted(props)
    os.makedirs(os.path.join(ROOT, "docs", "coverage"), exist_ok=True)
    for pid in ids:
        c = CHECKS[pid]
        t0 = time.time()
        binary, blog = build_cov(c.harness)
        if binary is None:
            print("%s: coverage build failed\n%s" % (pid, blog[-2000:]))
            continue
        covdir = os.path.join(vlib.RUN, "cov", pid)
        shutil.rmtree(covdir, ignore_errors=True)
        os.makedirs(os.path.join(covdir, "data"))
        os.makedirs(os.path.join(covdir, "out"))
        c.env = dict(c.env, GOCOVERDIR=os.path.join(covdir, "data"), VERIF_COVER="1")
        ok, hlog = c.run_harness(binary, os.path.join(covdir, "out"), seed, tier)
        prof = os.path.join(covdir, "cov.txt")
        rc, out = vlib.sh(["go", "tool", "covdata", "textfmt", "-i=" + os.path.join(covdir, "data"), "-o=" + prof],
                          cwd=vlib.REPO, env=vlib.GOENV, timeout=600)
        if rc != 0 or not os.path.exists(prof):
            print("%s: no coverage data (harness ok=%s)\n%s\n%s" % (pid, ok, hlog[-1500:], out[-500:]))
            continue
        fc = func_cover(prof)
        bc, unc = block_cover(prof)
        files = [f for f in props[pid]["anchors"].get("files", []) if f.endswith(".go")]
        rep = dict(property_id=pid, tier=tier, seed=int(seed), harness_ok=ok, secs=round(time.time() - t0, 1), files={})
        for f in files:
            fns = fc.get(f, {})
            cov, tot = bc.get(f, (0, 0))
            rep["files"][f] = dict(
                statements_covered=cov, statements=tot,
                pct=round(100.0 * cov / tot, 1) if tot else None,
                functions=len(fns),
                never_entered=sorted(k for k, v in fns.items() if v == 0.0),
                partly_covered={k: v for k, v in sorted(fns.items()) if 0.0 < v < 100.0},
                uncovered_line_ranges=["%d-%d" % ab for ab in sorted(unc.get(f, []))],
            )
        json.dump(rep, open(os.path.join(ROOT, "docs", "coverage", pid + ".json"), "w"), indent=1)
        shutil.rmtree(covdir, ignore_errors=True)
        try:
            os.remove(binary)
        except OSError:
            pass
        print("%s: %s (%.0fs)" % (pid, ", ".join("%s %s%%" % (f, r["pct"]) for f, r in rep["files"].items()), rep["secs"]))
    # summary table over everything measured so far
    rows = []
    for pid in sorted(props):
        p = os.path.join(ROOT, "docs", "coverage", pid + ".json")
        if not os.path.exists(p):
            continue
        r = json.load(open(p))
        for f, d in r["files"].items():
            names = sorted(set(x.split("@")[0] for x in d["never_entered"]))
            ne = (", ".join(names[:14]) + (" … (+%d, see json)" % (len(names) - 14) if len(names) > 14 else "")) or "-"
            rows.append("| %s | %s | %s | %s/%s | %s |" % (pid, f, d["pct"], d["statements_covered"], d["statements"], ne))
    with open(os.path.join(ROOT, "docs", "COVERAGE.md"), "w") as o:
        o.write("# Statement coverage of the anchored Go files by each property's correspondence run\n\n"
                "Generated by `tools/tie_coverage.py` (quick tier unless stated in docs/coverage/<id>.json): the harness of each\n"
                "check is rebuilt from /repo with `go build -cover -coverpkg=github.com/openconfig/gnmi/...` and run once; the\n"
                "numbers say how much of the code a property is anchored in (`anchors.files` of properties.jsonl) the\n"
                "correspondence run executes while Coq compares it with the model, i.e. how wide the tie between model and\n"
                "code is.  Functions never entered are listed; partly covered ones are in the json.  Not part of any verdict.\n\n"
                "| prop | anchored file | statements covered % | covered/total | functions never entered |\n|---|---|---|---|---|\n")
        o.write("\n".join(rows) + "\n")


if __name__ == "__main__":
    main()

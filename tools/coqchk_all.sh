#!/bin/bash
# Re-checks every compiled file of the development (and everything it depends on) with the
# independent checker coqchk and prints the axioms they rely on.  Slow (tens of minutes).
# usage: tools/coqchk_all.sh [Props-only]
cd "$(dirname "$0")/../coq" || exit 2
if [ "${1:-}" = "Props-only" ]; then
  MODS=$(ls Props/*.vo | sed 's|/|.|; s|\.vo$||; s|^|Gnmi.|')
else
  MODS=$(find . -name '*.vo' | sed 's|^\./||; s|/|.|g; s|\.vo$||; s|^|Gnmi.|' | sort)
fi
echo "coqchk over $(echo $MODS | wc -w) modules"
/usr/bin/time -f "coqchk wall %es, max RSS %MkB" coqchk -silent -o -Q . Gnmi $MODS 2>&1 | tail -60

#!/bin/bash
# usage: seed_confirm.sh <worktree> <outdir> <pkgdir-of-demo> <prop id> <name>
# Confirms a seeded change: demo fails with it and passes without it, build + full suite
# pass with it.  On success stores /verif/seeded/<id>/<name>/{patch.diff,demo_test.go,meta.json,confirm.log}
set -u
WT=$1; OUT=$2; PKG=$3; ID=$4; NAME=$5
if [ "$PKG" = "-" ]; then PKG=$(head -1 "$OUT/demo_test.go" | sed -n 's|^// *dir: *\([A-Za-z0-9_/]*\).*|\1|p'); fi
[ -n "$PKG" ] || { echo "no pkg dir"; exit 2; }
export GOFLAGS=-mod=mod GOPROXY=off GOSUMDB=off GOTOOLCHAIN=local
cd "$WT" || exit 2
LOG=$(mktemp)
git checkout -q -- . ; git clean -fdq
git apply "$OUT/patch.diff" || { echo "patch does not apply"; exit 2; }
DEMO=$PKG/zz_seed_demo_test.go
cp "$OUT/demo_test.go" "$DEMO"
echo "== demo WITH change (must fail)" >>$LOG
go test -vet=off -count=1 ./$PKG/ -run "$(grep -o 'func Test[A-Za-z0-9_]*' $DEMO | sed 's/func //' | paste -sd'|')" >>$LOG 2>&1; WITH=$?
git apply -R "$OUT/patch.diff"
cp "$OUT/demo_test.go" "$DEMO"
echo "== demo WITHOUT change (must pass)" >>$LOG
go test -vet=off -count=1 ./$PKG/ -run "$(grep -o 'func Test[A-Za-z0-9_]*' $DEMO | sed 's/func //' | paste -sd'|')" >>$LOG 2>&1; WITHOUT=$?
rm -f "$DEMO"
git apply "$OUT/patch.diff"
rm -f "$DEMO"
echo "== build + full suite WITH change (must pass)" >>$LOG
go build ./... >>$LOG 2>&1; B=$?
go test -vet=off -count=1 -timeout 8m ./... >>$LOG 2>&1; S=$?
echo "with=$WITH without=$WITHOUT build=$B suite=$S" | tee -a $LOG
if [ $WITH -ne 0 ] && [ $WITHOUT -eq 0 ] && [ $B -eq 0 ] && [ $S -eq 0 ]; then
  D=/verif/seeded/$ID/$NAME; mkdir -p $D
  cp "$OUT/patch.diff" "$OUT/demo_test.go" $D/
  cp "$OUT/meta.json" $D/meta_author.json 2>/dev/null
  grep -v "^ok\|no test files" $LOG | tail -60 > $D/confirm.log
  echo CONFIRMED $D
else
  tail -40 $LOG; echo NOT-CONFIRMED
fi
rm -f $LOG
